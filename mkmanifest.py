"""Regenerates MANIFEST.json from the tables below (keeps it valid at all times)."""
import json, os
HERE = os.path.dirname(os.path.abspath(__file__))

CLI_NOTE = ("Trusted: the device reference model (one line per (rule,key), own nesting via the vendor exit word, vendor session "
            "table), the independent rule/ACL matchers, the synthetic-rulebook domain (head-word-disjoint sibling rules, at most one "
            "%ordered rule per block, block rows fully determined by their key, %rewrite only as the shipped body rule, "
            "permanent/ignore_changes only outside %ordered blocks). Sampling, not proof. Junos-style flattening vendors not covered.")

CLAIMED = {
 "C19": dict(
    engine="pc",
    technique="deterministic simulation with fault injection: seeded histories of the real `annet diff` / `annet deploy` for a whole-file device (generator sets, listing orders, reload modes, out-of-band file edits, failed file fetches); uploads observed at the DeployDriver seam and applied to a file-store device model",
    level_text="Seeded exploration at the driver seam: seeded Entire generators (colliding paths, distinct priorities, outputs, reload strings, is_safe) in drawn listing orders against a PcDevice file store; what DeployDriver.bulk_deploy receives from the real api.adeploy (files, bytes, reload commands) and what api.diff reports are compared with a reference (argmax-priority content, upload iff content differs or forced, reload iff enabled); the device applies the upload and the next run must upload nothing; a failed file fetch must yield an error, not an upload.",
    design_ref="DESIGN.md 5 (C19)",
    level_note="Trusted: the reference model of priority selection (generators that decline the device do not compete) / safe-mode filter / upload decision / reload attachment incl. the transport's closing commands, PcDevice. Two open known findings (newline-only difference, absent vs generated-empty) are listed in known_findings.json and reported as KNOWN-FINDING; any other disagreement fails the check."),
 "C16": dict(
    engine="files",
    technique="deterministic simulation: seeded world states written to files, the real file-patch/file-diff front ends run through the real Parallel on simulated multiprocessing (schedule, delays, retirement, listing order drawn) and are compared host by host with the device front end",
    level_text="Seeded differential exploration between two real code paths on simulated world states: corpus pairs in both directions, per-vendor cross products and seeded mutations are written by the vendor formatter for 1-8 hosts; api.file_patch and api.file_diff (with _read_old_new_cfgdumps, pool workers, _read_old_new_diff_patch) must produce, for every host, exactly the patch text and the diff text the device front end (_diff_and_patch on the trees parsed from the same files) produces, and every host must be delivered exactly once.",
    design_ref="DESIGN.md 5 (C16)",
    level_note="Trusted: FakeMP (as for C12), the scratch directory, the canonical rendering of the device-mode diff through gen_pre_as_diff. Explicit hardware (several concrete models per vendor), no ACL, implicit defaults off, add_comments off; Huawei texts also in device style ('#' separators). Every batch runs in a child forked from the pristine engine process. The schedule matters only for delivery."),
 "C11": dict(
    engine="vlan",
    technique="deterministic simulation with fault injection: seeded VLAN-set histories through the real `annet deploy` on the shipped huawei/cisco/nexus rulebooks against a set-valued device model; invariant after every executed command, deploys cut at drawn commands",
    level_text="Seeded exploration: the device holds each VLAN list as a set and renders it with its own range writer split over 1-4 lines, the generator renders the desired set with an independent splitting; the real api.adeploy produces the commands from the shipped rulebooks and vlandb logic; after EVERY command S_old & S_new must still be present (so every cut point is covered) and after an un-cut deploy the set must equal the desired one; expand/collapse are cross-checked at the seam by the device's independent parser/writer.",
    design_ref="DESIGN.md 5 (C11)",
    level_note="Trusted: VlanDevice's command semantics (add / remove / none / undo all), its independent range parser and writer. VLAN 1 and Huawei's 'undo port trunk allow-pass vlan 1' default line are outside the universe; 'vlan N / name' blocks are generated on both families but VLAN names themselves are not judged; 'vlan pool' lists are not among the lists the property names (huawei.rul keys them per line) and are left out."),
 "C09": dict(
    engine="cli",
    technique="deterministic simulation: seeded deploys through the real `annet patch` and `annet deploy` front ends; the command stream is observed at the DeployDriver seam and replayed on a virtual clock against a device conforming to the reference deploy rules",
    level_text="Seeded exploration at the driver seam: for seeded world states the text `annet patch` prints, the cmd_lines shown at the confirmation prompt and the CommandList handed to DeployDriver.bulk_deploy by the real api.adeploy are compared command by command (order, depth, block exits, exactly once); the wrapper is compared with an independent vendor session table for do_commit/dont_commit; timeout and dialogs of every command with an independent evaluation of the synthetic deploy rulebook; the device takes just under the reference timeout and asks the reference questions, so a wrong carried timeout or dialog fails the deploy on the virtual clock.",
    design_ref="DESIGN.md 5 (C09)",
    level_note=CLI_NOTE + " Deploy rulebooks: sibling rules with disjoint languages, globally unique head words; rule selection semantics as the shipped rulebooks rely on it (unmatched ancestor levels are skipped)."),
 "C02": dict(
    engine="cli",
    technique="deterministic simulation with fault injection: seeded histories of the real `annet deploy` with ACL-owning generators against simulated devices holding unmanaged lines; safety invariants evaluated after every executed command (every possible cut point)",
    level_text="Seeded exploration: 1-3 seeded generators own random sub-forests of a synthetic rulebook (nested ACLs, ~ %global, %cant_delete=0/1, the interface default, blocks shared between generators); the real api.adeploy runs against devices that also hold unmanaged lines, with out-of-band edits and connection cuts. After every command the device executes, an independent ACL walk must cover the command path, no unmanaged line may have changed, and no removal event may hit a line covered only by cant_delete rules.",
    design_ref="DESIGN.md 5 (C02)",
    level_note=CLI_NOTE + " No schedule is involved: the simulator contributes the device (the statement is about device lines), the history with out-of-band edits, and evaluation at every crash point."),
 "C01": dict(
    engine="cli",
    technique="deterministic simulation with fault injection: seeded histories of the real `annet deploy` against simulated devices (fetch failures/stalls, connection cuts at any command, out-of-band edits) on a virtual clock; reference device model as oracle",
    level_text="Seeded exploration of whole-system histories: the real api.adeploy (generators, ACL, diff, patch, ordering, vendor formatter, deploy rulebook) runs against CliDevice reference models over seeded synthetic rulebooks for nine vendor families; after every un-cut deploy the device must equal the reference expectation, annet's own post-deploy check must agree, and a second deploy must send nothing; after a cut or failed fetch nothing is assumed and the next fault-free deploy must converge.",
    design_ref="DESIGN.md 3.5, 5 (C01)",
    level_note=CLI_NOTE),
 "C12": dict(
    engine="pool",
    technique="deterministic simulation with fault injection: seeded search over schedules, delays and task faults of the real Parallel loop on a fake multiprocessing/clock",
    level_text="Seeded exploration: every run executes the real annet.parallel code (parent loop, workers, retry, callbacks) on an in-process multiprocessing/time stand-in whose scheduler, delays and faults come from one choice list; the oracle is the exact multiset of delivered outcomes, their payloads and termination. A clean batch is evidence over the sampled schedules, not a proof.",
    design_ref="DESIGN.md 3.2, 3.3, 5 (C12)",
    level_note="Trusted: the kernel, FakeMP's model of mp.Queue / SimpleQueue / Process / os._exit (asynchronous put with feeder, per-producer FIFO, exit waits for feeder flush, unpicklable items dropped by the feeder, SimpleQueue with a 64 KiB pipe; calibrated against real multiprocessing on the pinned defect and on the seeded C12 changes), the workload generator. One run in twelve drives the production callers api.patch / api.gen over simulated devices. Pre-emption only at intercepted operations; mp.Queue pipe capacity unbounded; no worker killed from outside."),
 "C20": dict(
    engine="history",
    technique="deterministic simulation: seeded job histories inside one long-lived (simulated) worker process, sequential or scheduled by the simulated pool, each result compared with a pristine-fork execution",
    level_text="Seeded exploration of processing histories: each run executes 4..40 jobs (real _diff_and_patch, apply_acl, Orderer.order_config on shipped and synthetic rulebooks, with shared compiled ACL objects and state-leaking logic functions) in one process, in an order chosen by seed or by the simulated pool scheduler, and compares every result with the same job run in a fork of the pristine process; old/new trees and compiled rulebooks are snapshotted around every call.",
    design_ref="DESIGN.md 5 (C20)",
    level_note="Trusted: the canonical result/snapshot encoders, os.fork as the model of a fresh process, the fixed job table (corpus x2, ACL variants, 18 synthetic rulebooks). Within-job leakage between keys of one rule is identical in the reference and therefore invisible."),
}

NOT_APPLICABLE = {
 "C03": "diff reconstruction laws are identities of the pure function make_diff/renderers on (old,new,rulebook); no schedule, clock, fault, peer or history to simulate",
 "C04": "render->parse round trip per vendor is a pure function of a tree; nothing to schedule or fault",
 "C05": "offside-rule parsing is a pure function of a text; nothing to schedule or fault",
 "C06": "ACL filtering laws (subtree, idempotence, monotonicity, strict mode) are algebraic identities of a pure function",
 "C07": "equivalence of a compiled regex with the rule-language semantics is a statement about a language, decided by enumeration, not by runs of a system",
 "C08": "ordering is a pure permutation of a patch/config by a rulebook; its only dynamic consequence is covered by C01's convergence oracle",
 "C10": "generator containment/exclusivity/union are pure functions of the generator programs and ACL texts; no concurrency, I/O or state between runs",
 "C13": "JSON fragment merge and JSON-patch round trip are pure document algebra",
 "C14": "routing-policy generators are pure functions of policy programs and entity lists",
 "C15": "mesh peer computation and model merging are pure functions of topology and handler set",
 "C17": "implicit-default completion is a pure, idempotent tree function",
 "C18": "a finite table (devdb x rulebook templates); exhaustive enumeration, not sampling of runs, is the right tool and belongs to another technique",
}
PENDING = {}  # filled below for claimed-in-DESIGN properties whose check is not built yet

ALL = ["C%02d" % i for i in range(1, 21)]
for pid in ALL:
    if pid not in CLAIMED and pid not in NOT_APPLICABLE:
        PENDING[pid] = "designed as a simulation target in DESIGN.md; its check is not built yet at this commit, so it is not claimed here"

checks = []
for pid in sorted(CLAIMED):
    c = CLAIMED[pid]
    checks.append({
        "property_id": pid,
        "quick_cmd": "./check %s quick" % pid,
        "thorough_cmd": "./check %s thorough" % pid,
        "evidence_file": "/verif/evidence/%s.json" % pid,
        "replay_cmd_template": "./check replay {path}",
        "engine": c["engine"],
        "level_claimed": {"category": "exploration", "text": c["level_text"], "design_ref": c["design_ref"]},
        "level_note": c["level_note"],
        "technique": c["technique"],
    })
engines = {}
for pid, c in CLAIMED.items():
    engines.setdefault(c["engine"], []).append(pid)
manifest = {
    "version": 1,
    "setup_cmd": "cd /verif && /venv/bin/python -c \"import sys; sys.path.insert(0,'/repo'); import annet.parallel, hypothesis; print('annetsim: nothing to build; annet imports from', annet.parallel.__file__)\"",
    "hooks": {
        "guard": "ANNET_VERIF_SIM",
        "enable": "no source hooks exist: every seam is a module attribute, abstract interface or connector that /verif rebinds from outside; the guard variable is set by ./check and read only by /verif code",
        "baseline_off_cmd": "cd /repo && /venv/bin/python -m pytest -ra -q -p no:cacheprovider --timeout=900 --continue-on-collection-errors",
        "source_commits": [],
        "add_only": True,
    },
    "engines": [{"name": n, "path": "/verif/annetsim/engines/%s.py" % n, "serves_properties": sorted(p),
                 "kind_free_text": "deterministic simulation engine (seeded choice list -> one exactly repeatable run)"}
                for n, p in sorted(engines.items())],
    "checks": checks,
    "notes": "Exit codes of every check: 0 held on everything explored; 1 with 'VIOLATION property=<id> replay=<path>'; 2 harness error (nondeterminism, hang, cannot bind a seam) - never a pass and never a violation. Genuine defects repaired in /repo are recorded in known_findings.json (status fixed). VERIF_SEED, VERIF_TIER, VERIF_JOBS, VERIF_RUNS, VERIF_BUDGET_S, VERIF_REPO are honoured.",
    "not_applicable": [{"property_id": p, "reason": r} for p, r in sorted({**NOT_APPLICABLE, **PENDING}.items())],
}
with open(os.path.join(HERE, "MANIFEST.json"), "w") as f:
    json.dump(manifest, f, indent=1)
print("claimed", sorted(CLAIMED), "n/a", len(NOT_APPLICABLE), "pending", sorted(PENDING))
