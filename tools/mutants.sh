#!/bin/sh
# tools/mutants.sh <ID> [runs] -- run every mutants/<ID>-*.diff against the property's quick check
ID=$1; RUNS=${2:-}
for m in /verif/mutants/$ID-*.diff; do
  if [ -n "$RUNS" ]; then export VERIF_RUNS=$RUNS; fi
  VERIF_NO_CROSS=1 timeout 1800 /verif/tools/mutant.sh "$m" "$ID" quick 2>&1 | grep -E "VIOLATION|clause=|MUTANT|HARNESS" | awk "NR<=4 || /MUTANT|HARNESS/"
done
