#!/bin/sh
# tools/run_all.sh quick|thorough [budget seconds per property] -- run every registered check in /verif against /repo, one after another
TIER=${1:-quick}; B=${2:-}
for id in C01 C02 C09 C11 C12 C16 C19 C20; do
  if [ -n "$B" ]; then export VERIF_BUDGET_S=$B; fi
  timeout 7200 /verif/check $id $TIER 2>&1 | grep -E "runs,|VIOLATION|HARNESS|KNOWN-FINDING|clause=" | cut -c1-260
done
