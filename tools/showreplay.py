import json, sys
d = json.load(open(sys.argv[1]))
print("=====", d["property"], d["clause"], d["key"])
det = d["detail"]
def tree(t, ind=2):
    if isinstance(t, dict):
        for k, v in t.items():
            print(" " * ind + k); tree(v, ind + 2)
for k, v in det.items():
    if isinstance(v, dict) and k in ("old", "new", "got", "want", "desired", "device_config"):
        print(k + ":"); tree(v)
    elif k == "commands" and v:
        print("commands:")
        for c in v: print("   ", c[:3] if len(sys.argv) < 3 else c)
    else:
        print(k, "=", json.dumps(v)[:400])
s = d["scenario"]
if s:
    for k in ("vendor", "hw", "features", "full_ownership", "acl", "steps", "mode", "history"):
        if k in s: print(k, "=", json.dumps(s[k])[:600])
    for k in ("rulebook", "ordering", "deploying"):
        if s.get(k): print(k + ":"); print("\n".join("    " + l for l in s[k] if l))
if len(sys.argv) > 2:
    for ev in d["trace"]: print("  ", ev)
