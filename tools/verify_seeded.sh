#!/bin/sh
# tools/verify_seeded.sh <ID> [worktree] [number offset] -- confirm each sub-agent change in its worktree (tests pass, demo
# fails with / passes without), then keep it under /verif/seeded/<ID>-<n>/.
ID=$1; WT=${2:-/tmp/wt-$ID}; OFF=${3:-0}
for d in $WT/seeded_out/change*; do
  n=$(( $(basename $d | sed 's/change//') + OFF ))
  echo "=== $ID change $n: $(/venv/bin/python -c "import json;print(json.load(open('$d/meta.json')).get('title'))")"
  cd $WT && git checkout -q -- . && git apply $d/patch.diff || { echo "APPLY FAILED"; continue; }
  T=$(PYTHONPATH=$WT timeout 900 /venv/bin/python -m pytest -q -p no:cacheprovider tests 2>&1 | tail -1)
  PYTHONPATH=$WT timeout 300 /venv/bin/python $d/demo.py >/tmp/demo_with.txt 2>&1; W=$?
  git checkout -q -- .
  PYTHONPATH=$WT timeout 300 /venv/bin/python $d/demo.py >/tmp/demo_without.txt 2>&1; WO=$?
  echo "tests: $T | demo with change: exit $W | without: exit $WO"
  if [ $W -ne 0 ] && [ $WO -eq 0 ] && echo "$T" | grep -q "337 passed"; then
    mkdir -p /verif/seeded/$ID-$n && cp $d/patch.diff $d/demo.py $d/meta.json /verif/seeded/$ID-$n/
    /venv/bin/python - /verif/seeded/$ID-$n/meta.json <<'PY'
import json,sys
m=json.load(open(sys.argv[1]))
m['confirmed']={"by":"tools/verify_seeded.sh in the sub-agent's scratch worktree (since removed)","ran":["git apply patch.diff","PYTHONPATH=<worktree> /venv/bin/python -m pytest -q -p no:cacheprovider tests  -> 337 passed with the change applied","demo.py with the change applied -> non-zero exit","git checkout -- . ; demo.py on the unchanged tree -> exit 0"]}
json.dump(m,open(sys.argv[1],'w'),indent=1)
PY
    echo "CONFIRMED -> /verif/seeded/$ID-$n"
  else
    echo "NOT CONFIRMED"; tail -5 /tmp/demo_with.txt; tail -3 /tmp/demo_without.txt
  fi
done
rm -f /tmp/demo_with.txt /tmp/demo_without.txt
