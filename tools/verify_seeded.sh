#!/bin/sh
# tools/verify_seeded.sh <ID> -- confirm each sub-agent change in its worktree (tests pass, demo fails with / passes without),
# then keep it under /verif/seeded/<ID>-<n>/ and run the property's quick check against it.
ID=$1; WT=/tmp/wt-$ID
for d in $WT/seeded_out/change*; do
  n=$(basename $d | sed 's/change//')
  echo "=== $ID change $n: $(/venv/bin/python -c "import json;print(json.load(open('$d/meta.json')).get('title'))")"
  cd $WT && git checkout -q -- . && git apply $d/patch.diff || { echo "APPLY FAILED"; continue; }
  T=$(PYTHONPATH=$WT timeout 900 /venv/bin/python -m pytest -q -p no:cacheprovider tests 2>&1 | tail -1)
  PYTHONPATH=$WT timeout 300 /venv/bin/python $d/demo.py >/tmp/demo_with.txt 2>&1; W=$?
  git checkout -q -- .
  PYTHONPATH=$WT timeout 300 /venv/bin/python $d/demo.py >/tmp/demo_without.txt 2>&1; WO=$?
  echo "tests: $T | demo with change: exit $W | without: exit $WO"
  if [ $W -ne 0 ] && [ $WO -eq 0 ] && echo "$T" | grep -q "337 passed"; then
    mkdir -p /verif/seeded/$ID-$n && cp $d/patch.diff $d/demo.py $d/meta.json /verif/seeded/$ID-$n/
    echo "CONFIRMED -> /verif/seeded/$ID-$n"
  else
    echo "NOT CONFIRMED"; tail -5 /tmp/demo_with.txt; tail -3 /tmp/demo_without.txt
  fi
done
