"""tools/seeded_matrix.py [ID ...] -- run the property's quick check against every kept seeded change and record the outcome in
seeded/<id>-<n>/meta.json (key "verif") and seeded/RESULTS.md."""
import glob, json, os, re, subprocess, sys, time
V = "/verif"
want = set(sys.argv[1:])
rows = []
for d in sorted(glob.glob(V + "/seeded/C*-*")):
    name = os.path.basename(d)
    prop = name.split("-")[0]
    if want and prop not in want and name not in want:
        continue
    if "superseded" in json.load(open(d + "/meta.json")):
        print(name, "superseded (kept as recorded)", flush=True)
        continue
    env = dict(os.environ, VERIF_NO_CROSS="1")
    if prop == "C20":
        env["VERIF_RUNS"] = "240"
    t0 = time.time()
    try:
        p = subprocess.run([V + "/tools/mutant.sh", d + "/patch.diff", prop, "quick"], capture_output=True, text=True, env=env, timeout=3000)
        out = p.stdout + p.stderr
        rc = p.returncode
    except subprocess.TimeoutExpired as e:
        out, rc = (e.stdout or b"").decode() if isinstance(e.stdout, bytes) else (e.stdout or ""), 124
    clauses = re.findall(r"clause=(\S+) key=(\S+) occurrences=(\d+)/(\d+)", out)
    clauses = [c for c in clauses]
    known = len(re.findall(r"^KNOWN-FINDING", out, re.M))
    res = {"check": "./check %s quick (against a scratch copy with the patch applied)" % prop, "exit": rc,
           "verdict": "caught" if rc == 1 and clauses else ("harness-error" if rc == 2 else "missed" if rc == 0 else "rc=%d" % rc),
           "clauses": ["%s/%s %s of %s runs" % c for c in clauses][:6], "wall_s": round(time.time() - t0)}
    if res["verdict"] != "caught":
        res["output_tail"] = [l[:300] for l in out.splitlines() if not l.startswith("KNOWN-FINDING")][-12:]
    meta = json.load(open(d + "/meta.json"))
    meta["verif"] = res
    json.dump(meta, open(d + "/meta.json", "w"), indent=1)
    rows.append((name, meta.get("title", ""), res))
    print(name, res["verdict"], res["clauses"][:2], flush=True)
# merge into RESULTS.md
path = V + "/seeded/RESULTS.md"
old = {}
if os.path.exists(path):
    for line in open(path):
        m = re.match(r"\| (C\d+-\d+) \|", line)
        if m:
            old[m.group(1)] = line
for name, title, res in rows:
    old[name] = "| %s | %s | %s | %s |\n" % (name, title.replace("|", "/"), res["verdict"], "; ".join(res["clauses"][:3]))
with open(path, "w") as f:
    f.write("# Seeded changes (written by sub-agents that saw only the property text) vs. the registered quick checks\n\n")
    f.write("| change | what it is | verdict | violation clauses reported |\n|---|---|---|---|\n")
    for k in sorted(old):
        f.write(old[k])
