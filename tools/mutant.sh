#!/bin/sh
# tools/mutant.sh <patch.diff> <ID> [quick|thorough] -- run a check against a scratch copy of /repo with a patch applied.
# The copy lives outside /repo and /verif and is removed afterwards; evidence of such runs goes to the scratch dir.
set -u
PATCH=$(readlink -f "$1"); ID=$2; TIER=${3:-quick}
SCR=$(mktemp -d /tmp/annet-mut-XXXXXX)
trap 'rm -rf "$SCR"' EXIT
mkdir -p "$SCR/repo" "$SCR/evidence"
(cd /repo && git ls-files -z | rsync -a --from0 --files-from=- . "$SCR/repo/")
(cd /repo && git diff HEAD --quiet) || echo "note: /repo has uncommitted changes; the copy is of the working tree"
if ! (cd "$SCR/repo" && patch -p1 -s < "$PATCH"); then echo "MUTANT: patch does not apply"; exit 3; fi
VERIF_REPO="$SCR/repo" VERIF_EVIDENCE_DIR="$SCR/evidence" /verif/check "$ID" "$TIER"
RC=$?
echo "MUTANT-RESULT patch=$(basename "$PATCH") property=$ID exit=$RC"
exit $RC
