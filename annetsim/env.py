"""The annet environment shared by the engines: connectors, rulebook provider for synthetic
worlds, the shipped (before, after) corpus, canonical forms."""
import copy
import glob
import logging
import os
import re
from collections import OrderedDict as odict

from .kernel import HarnessError

REPO = os.environ.get("VERIF_REPO", "/repo")

HW_STUB = {
    "cisco": "Cisco Catalyst", "nexus": "Cisco Nexus", "asr": "Cisco ASR", "iosxr": "Cisco XR",
    "huawei": "Huawei", "huawei ce": "Huawei CE0000", "juniper": "Juniper", "routeros": "RouterOS",
    "aruba": "Aruba", "arista": "Arista", "nokia": "Nokia", "pc": "PC", "ribbon": "Ribbon",
    "optixtrans": "Huawei DC", "b4com": "B4com", "h3c": "H3C",
}

_inited = False
PROVIDER = None


def init():
    """set annet's connectors once per process"""
    global _inited, PROVIDER
    if _inited:
        return PROVIDER
    logging.disable(logging.CRITICAL)
    from annet.hardware import hardware_connector, AnnetHardwareProvider
    from annet.rulebook import rulebook_provider_connector, DefaultRulebookProvider

    class SimRulebookProvider(DefaultRulebookProvider):
        """serves registered synthetic rulebooks for synthetic hardware, the shipped ones otherwise"""
        root_modules = ("annet.rulebook", "annetsim.rb")

        def __init__(self):
            super().__init__()
            self.synthetic = {}

        def register(self, hw, rb):
            self.synthetic[hw.model] = rb
            self._rulebook_cache.pop(hw, None)

        def unregister(self, hw):
            self.synthetic.pop(hw.model, None)
            self._rulebook_cache.pop(hw, None)

        def get_rulebook(self, hw):
            rb = self.synthetic.get(hw.model)
            if rb is not None:
                return rb
            return super().get_rulebook(hw)

    if hardware_connector._classes is None:
        hardware_connector.set(AnnetHardwareProvider)
    rulebook_provider_connector._classes = [SimRulebookProvider]
    rulebook_provider_connector._cache = None
    PROVIDER = rulebook_provider_connector.get()
    if not isinstance(PROVIDER, SimRulebookProvider):
        raise HarnessError("cannot install the simulated rulebook provider")
    from annet.diff import file_differ_connector, UnifiedFileDiffer
    if file_differ_connector._classes is None:
        file_differ_connector._classes = [UnifiedFileDiffer]
    _inited = True
    return PROVIDER


def hw_stub(vendor):
    from annet.annlib.netdev.views.hardware import HardwareView
    return HardwareView(HW_STUB[vendor], None)


def vendor_of(hw):
    from annet.vendors import registry_connector
    return registry_connector.get().match(hw)


def formatter(hw, indent=""):
    return vendor_of(hw).make_formatter(indent=indent)


# ---------------------------------------------------------------------------- corpus
def _expand_diff(diff, splitter):
    from annet import tabparser

    def _process_node(node, sign=0):
        ret1, ret2 = odict(), odict()
        for line, children in node.items():
            line = line.strip()
            line_sign = 0
            if line.startswith("-") or line.startswith("+"):
                line_sign = 1 if line[0] == "+" else -1
                line = line[1:].strip()
            (sub1, sub2) = _process_node(children, line_sign)
            if line_sign != 1:
                ret1[line] = sub1
            if line_sign != -1:
                ret2[line] = sub2
        return (ret1, ret2)
    return _process_node(tabparser.parse_to_tree(text=diff, splitter=splitter))


_corpus = None


def load_corpus():
    """the shipped (before, after) samples: list of dict(name, vendor, hw, old, new)"""
    global _corpus
    if _corpus is not None:
        return _corpus
    import yaml
    from annet import tabparser
    d = os.path.join(REPO, "tests", "annet", "test_patch")
    files = sorted(glob.glob(os.path.join(d, "*.yaml")))
    if not files:
        raise HarnessError("shipped patch corpus not found under %s" % d)
    out = []
    for fn in files:
        with open(fn) as f:
            data = yaml.load(f.read(), Loader=yaml.BaseLoader)
        samples = data if isinstance(data, list) else [data]
        for i, sample in enumerate(samples, start=1):
            vendor = sample.get("vendor", "huawei").lower()
            if vendor not in HW_STUB:
                continue
            hw = hw_stub(vendor)
            splitter = formatter(hw, "  ").split
            try:
                if "diff" in sample:
                    old, new = _expand_diff(sample["diff"], splitter)
                else:
                    old = tabparser.parse_to_tree(text=sample["before"], splitter=splitter)
                    new = tabparser.parse_to_tree(text=sample["after"], splitter=splitter)
            except Exception:  # pylint: disable=broad-except
                continue
            out.append({"name": "%s #%d" % (os.path.basename(fn), i), "vendor": vendor, "hw": hw, "old": old, "new": new})
    if len(out) < 50:
        raise HarnessError("shipped patch corpus unexpectedly small: %d samples" % len(out))
    _corpus = out
    return out


# ---------------------------------------------------------------------------- canonical forms
def canon_diff(diff):
    return [(str(op), row, canon_diff(ch)) for (op, row, ch, _m) in diff]


def canon_tree(tree):
    return [(k, canon_tree(v)) for k, v in tree.items()]


def cmd_list(hw, patch_tree):
    """[(level, row)] as the deploy path flattens a PatchTree"""
    fmt = formatter(hw, "")
    return [(len(p) - 1, p[-1]) for p in fmt.cmd_paths(patch_tree)]


_RE_TYPE = type(re.compile(""))


def snapshot(obj, _depth=0):
    """deep canonical snapshot of trees / compiled rulebooks: regex -> (pattern, flags),
    function -> qualified name; used to detect mutation of inputs"""
    if _depth > 60:
        return "<deep>"
    if isinstance(obj, (str, int, float, bool)) or obj is None:
        return obj
    if isinstance(obj, _RE_TYPE):
        return ("re", obj.pattern, obj.flags)
    if isinstance(obj, dict):
        return ("d", tuple((snapshot(k, _depth + 1), snapshot(v, _depth + 1)) for k, v in obj.items()))
    if isinstance(obj, (list, tuple)):
        return ("l", tuple(snapshot(v, _depth + 1) for v in obj))
    if isinstance(obj, (set, frozenset)):
        return ("s", tuple(sorted(repr(snapshot(v, _depth + 1)) for v in obj)))
    if callable(obj):
        return ("f", getattr(obj, "__module__", "?"), getattr(obj, "__qualname__", repr(type(obj))))
    if hasattr(obj, "__dict__"):
        return ("o", type(obj).__name__, snapshot(vars(obj), _depth + 1))
    return ("r", repr(obj))


def deep(tree):
    return copy.deepcopy(tree)
