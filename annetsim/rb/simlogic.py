"""Adversarial logic functions for synthetic rulebooks (C20): they behave like common.default
but scribble on every argument they are given, the way a careless rulebook author could.
The property says results must not depend on what ran before, so these writes must never
become visible to a later job."""
from annet.annlib.rulebook import common
from annet.types import Op


def scribble(rule, key, diff, **kwargs):
    # remember the pristine reverse template the way default_instead_undo does, then damage it
    reverse = rule["reverse"]
    out = list(common.default({"reverse": reverse}, key, diff))
    rule["reverse"] = "SCRIBBLED " + reverse
    if isinstance(rule.get("comment"), list):
        rule["comment"].append("scribbled in place")          # nested object of the attrs, mutated in place
    rule["comment"] = list(rule.get("comment", [])) + ["scribbled"]
    rule.setdefault("context", {})
    if isinstance(rule["context"], dict):
        rule["context"]["scribbled"] = "1"
    rp = kwargs.get("rule_pre")
    if rp is not None:
        rp["scribbled"] = True
    yield from out


def counting(rule, key, diff, **kwargs):
    # leaks state through the rule it was handed: a second call would see the counter
    n = rule.get("_calls", 0)
    rule["_calls"] = n + 1
    if n:
        # visibly different behaviour once state has leaked
        yield (True, "LEAKED-STATE %d" % n, None)
    yield from common.default(rule, key, diff)


def demote(rule, key, diff, **kwargs):
    # like common.permanent: rewrites the diff buckets it was given
    if diff[Op.REMOVED]:
        diff[Op.AFFECTED] += diff[Op.REMOVED]
        diff[Op.REMOVED] = []
    yield from common.default(rule, key, diff)


def dyn_force_commit(rule, key, diff, **_):
    """like huawei.bgp.undo_commit: replacing the line needs 'undo', a commit, then the new line; the rule asks for
    the intermediate commit dynamically, from inside the generator"""
    if diff[Op.REMOVED] and diff[Op.ADDED] and not diff[Op.AFFECTED]:
        rule["force_commit"] = True
        yield (False, rule["reverse"].format(*key), None)
        rule["force_commit"] = False
        only_add = {op: [] for op in diff}
        only_add[Op.ADDED] = diff[Op.ADDED]
        yield from common.default(rule, key, only_add)
    else:
        yield from common.default(rule, key, diff)


def apply_alt(hw, do_commit, do_finalize, **_):
    """a second apply logic for deploy rules (the way aruba.ap_env.apply differs from common.apply)"""
    from annet.annlib.command import Command, CommandList
    before, after = CommandList(), CommandList()
    before.add_cmd(Command("alt-begin"))
    if do_commit:
        after.add_cmd(Command("alt-commit"))
    after.add_cmd(Command("alt-end"))
    return before, after
