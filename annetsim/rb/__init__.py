"""Root module for %logic functions of synthetic rulebooks (served via SimRulebookProvider.get_root_modules)."""
