"""Batch runner: seeded search over runs, determinism self-test, minimisation, replay files,
known findings, evidence (DESIGN.md 4)."""
import collections
import concurrent.futures as cf
import faulthandler
import hashlib
import json
import multiprocessing
import os
import subprocess
import sys
import time
import traceback

from . import ENGINE_VERSION
from .choices import Choices, derive_seed
from .kernel import HarnessError

VERIF_DIR = os.path.dirname(os.path.dirname(os.path.abspath(__file__)))
REPO = os.environ.get("VERIF_REPO", "/repo")


def jobs_default():
    return int(os.environ.get("VERIF_JOBS", "16"))


def run_digest(ch, res):
    v = res.get("violation")
    body = repr((ch.log, res.get("trace_digest") or _trace_digest(res.get("trace", ())),
                 (v["clause"], v["key"]) if v else None))
    return hashlib.sha256(body.encode()).hexdigest()


def _trace_digest(trace):
    h = hashlib.sha256()
    for ev in trace:
        h.update(repr(ev).encode())
    return h.hexdigest()


def trace_sha(res):
    return res.get("trace_digest") or _trace_digest(res.get("trace", ()))


def limit_resources(mem_gb=6, cpu_s=None):
    """a change to annet that makes it eat memory or spin must end in a verdict, not take the sandbox down"""
    import resource
    lim = int(mem_gb * (1 << 30))
    try:
        resource.setrlimit(resource.RLIMIT_AS, (lim, lim))
        if cpu_s:
            resource.setrlimit(resource.RLIMIT_CPU, (cpu_s, cpu_s + 30))
    except (ValueError, OSError):
        pass


def _run(engine, ch):
    """engines with isolate=True execute every run in a child forked from the (pristine) engine process, so that the
    verdict of a run can never depend on state an earlier run of the same batch worker left behind"""
    if not getattr(engine, "isolate", False):
        return engine.run(ch)
    import pickle
    r, w = os.pipe()
    pid = os.fork()
    if pid == 0:
        os.close(r)
        try:
            try:
                limit_resources(4, 300)
                data = pickle.dumps(("OK", engine.run(ch), list(ch.log)))
            except HarnessError as e:
                data = pickle.dumps(("HARNESS", str(e), None))
            except BaseException as e:  # pylint: disable=broad-except
                data = pickle.dumps(("HARNESS", "isolated run crashed: %r\n%s" % (e, traceback.format_exc()[-1500:]), None))
            off = 0
            while off < len(data):
                off += os.write(w, data[off:off + 65536])
        finally:
            os._exit(0)
    os.close(w)
    chunks = []
    while True:
        b = os.read(r, 1 << 20)
        if not b:
            break
        chunks.append(b)
    os.close(r)
    os.waitpid(pid, 0)
    if not chunks:
        raise HarnessError("isolated run died without an answer")
    tag, res, log = pickle.loads(b"".join(chunks))
    if tag != "OK":
        raise HarnessError(res)
    ch.log[:] = log
    return res


def run_seed(engine, seed):
    ch = Choices(seed)
    res = _run(engine, ch)
    return ch, res


def run_choices(engine, choices):
    ch = Choices(recorded=choices)
    res = _run(engine, ch)
    return ch, res


# --------------------------------------------------------------------------- chunk worker
_ENGINE = None


def _chunk(args):
    base, label, lo, hi, keep_samples = args
    engine = _ENGINE
    faulthandler.dump_traceback_later(600, exit=True)
    limit_resources(8)
    out = {"n": 0, "nontrivial": 0, "sigs": set(), "sim_s": 0.0, "steps": 0,
           "faults": collections.Counter(), "probes": collections.Counter(),
           "strategies": collections.Counter(), "digests": [], "violations": [], "samples": [],
           "fault_free": 0, "runs_with_faults": 0}
    for i in range(lo, hi):
        seed = derive_seed(base, label, i)
        try:
            ch, res = run_seed(engine, seed)
        except HarnessError:
            raise
        except Exception as e:  # pylint: disable=broad-except
            raise HarnessError("engine crashed on run %d (seed %d): %s\n%s" % (i, seed, e, traceback.format_exc()))
        out["n"] += 1
        out["sim_s"] += res.get("sim_s", 0.0)
        out["steps"] += res.get("steps", 0)
        out["faults"].update(res.get("faults", {}))
        out["probes"].update(res.get("probes", {}))
        if res.get("strategy"):
            out["strategies"][res["strategy"]] += 1
        if any(res.get("faults", {}).values()):
            out["runs_with_faults"] += 1
        else:
            out["fault_free"] += 1
        if res.get("nontrivial"):
            out["nontrivial"] += 1
            out["sigs"].add(res["sig"])
            if len(out["samples"]) < keep_samples:
                out["samples"].append({"run": i, "seed": seed, "scenario": res.get("scenario"),
                                       "trace_head": [list(map(_js, ev)) for ev in res.get("trace", [])[:40]]})
        out["digests"].append(run_digest(ch, res))
        v = res.get("violation")
        if v:
            out["violations"].append((i, seed, v["clause"], v["key"], list(ch.log), v.get("detail")))
    faulthandler.cancel_dump_traceback_later()
    return out


def _js(x):
    if isinstance(x, (int, float, str, bool)) or x is None:
        return x
    return repr(x)


# --------------------------------------------------------------------------- known findings
def load_known():
    path = os.path.join(VERIF_DIR, "known_findings.json")
    if not os.path.exists(path):
        return []
    with open(path) as f:
        return json.load(f).get("findings", [])


def match_known(known, prop, clause, key):
    for k in known:
        if k.get("status") == "open" and k["property"] == prop and k["clause"] == clause and k["key"] == key:
            return k
    return None


# --------------------------------------------------------------------------- minimisation
def minimise(engine, choices, target, budget=400, wall_s=90.0):
    """shrink a choice list while the same (clause, key) violation persists; bounded by re-runs and by wall clock"""
    spent = [0]
    t_end = time.time() + wall_s

    def fails(c):
        if spent[0] >= budget or time.time() > t_end:
            spent[0] = max(spent[0], budget)
            return None
        spent[0] += 1
        try:
            ch, res = run_choices(engine, c)
        except Exception:  # pylint: disable=broad-except
            return None
        v = res.get("violation")
        if v and (v["clause"], v["key"]) == target:
            last_tags[:] = list(getattr(ch, "tags", ()))[:len(ch.log)]
            return list(ch.log)
        return None

    last_tags = []
    cur = fails(list(choices))
    if cur is None:
        return list(choices), spent[0]
    # 0. scenario sizes first: draws whose tag names a count (steps, devices, hosts, ids, generators, rules ...)
    size_tags = ("nsteps", "ndev", "n", "nhosts", "ngens", "nslots", "len", "nrules", "nglobals", "prod-ndev", "nrows", "long")
    for _round in range(40):
        changed = False
        tags = list(last_tags)
        for i in range(min(len(cur), len(tags))):
            if spent[0] >= budget // 3:
                break
            if tags[i] in size_tags and cur[i] > 0:
                for nv in (0, cur[i] // 2, cur[i] - 1):
                    if nv >= cur[i]:
                        continue
                    r = fails(cur[:i] + [nv] + cur[i + 1:])
                    if r is not None and len(r) <= len(cur):
                        cur = r
                        changed = True
                        break
                if changed:
                    break
        if not changed or spent[0] >= budget // 3:
            break
    improved = True
    while improved and spent[0] < budget:
        improved = False
        # 1. delete chunks
        size = max(1, len(cur) // 2)
        while size >= 1 and spent[0] < budget:
            i = 0
            while i < len(cur) and spent[0] < budget:
                cand = cur[:i] + cur[i + size:]
                r = fails(cand)
                if r is not None and len(r) < len(cur):
                    cur = r
                    improved = True
                else:
                    i += size
            size //= 2
        # 1b. zero chunks (zero = first option / fault off)
        size = max(1, len(cur) // 2)
        while size >= 2 and spent[0] < budget:
            i = 0
            while i < len(cur) and spent[0] < budget:
                if any(cur[i:i + size]):
                    cand = cur[:i] + [0] * len(cur[i:i + size]) + cur[i + size:]
                    r = fails(cand)
                    if r is not None and (len(r), sum(1 for x in r if x)) < (len(cur), sum(1 for x in cur if x)):
                        cur = r
                        improved = True
                i += size
            size //= 2
        # 2. zero, then halve, then decrement values
        for i in range(len(cur)):
            if spent[0] >= budget:
                break
            if i >= len(cur) or cur[i] == 0:
                continue
            for nv in (0, cur[i] // 2, cur[i] - 1):
                if nv >= cur[i]:
                    continue
                cand = cur[:i] + [nv] + cur[i + 1:]
                r = fails(cand)
                if r is not None and (len(r), r) < (len(cur), cur):
                    cur = r
                    improved = True
                    break
    return cur, spent[0]


# --------------------------------------------------------------------------- replay files
def write_replay(engine, seed, choices, res, extra=None):
    v = res["violation"]
    os.makedirs(os.path.join(VERIF_DIR, "replays"), exist_ok=True)
    path = os.path.join(VERIF_DIR, "replays", "%s-%s-%s.json" % (engine.property_id, v["clause"], seed))
    doc = {"property": engine.property_id, "clause": v["clause"], "key": v["key"], "engine": engine.name,
           "engine_args": getattr(engine, "args", {}),
           "seed": seed, "choices": choices, "detail": v.get("detail"), "scenario": res.get("scenario"),
           "trace": [list(map(_js, ev)) for ev in res.get("trace", [])[-400:]],
           "trace_sha256": trace_sha(res), "repo_head": repo_head(), "engine_version": ENGINE_VERSION}
    if extra:
        doc.update(extra)
    with open(path, "w") as f:
        json.dump(doc, f, indent=1, default=repr)
    return path


def repo_head():
    try:
        return subprocess.run(["git", "-C", REPO, "rev-parse", "HEAD"], capture_output=True, text=True,
                              timeout=20).stdout.strip()
    except Exception:  # pylint: disable=broad-except
        return "unknown"


def replay_in_fresh_process(path):
    """re-execute a replay file in a fresh interpreter; returns (reproduced, output)"""
    env = dict(os.environ)
    env["PYTHONHASHSEED"] = "0"
    p = subprocess.run([sys.executable, os.path.join(VERIF_DIR, "annetsim", "main.py"), "replay", path],
                       capture_output=True, text=True, env=env, timeout=900)
    return p.returncode == 1 and "REPRODUCED" in p.stdout, p.stdout + p.stderr


# --------------------------------------------------------------------------- determinism
def selftest_sample(engine, base, label, indices):
    """run each index twice in-process -> list of digests (raises on in-process divergence)"""
    out = []
    for i in indices:
        seed = derive_seed(base, label, i)
        ch1, r1 = run_seed(engine, seed)
        ch2, r2 = run_seed(engine, seed)
        d1, d2 = run_digest(ch1, r1), run_digest(ch2, r2)
        if d1 != d2:
            raise HarnessError("nondeterminism: run %d (seed %d) differs between two in-process executions" % (i, seed))
        # replay from the recorded choice list must be the same execution
        ch3, r3 = run_choices(engine, list(ch1.log))
        if run_digest(ch3, r3) != d1:
            raise HarnessError("nondeterminism: run %d (seed %d) differs when replayed from its choice list" % (i, seed))
        out.append(d1)
    return out


def selftest_cross(engine, base, label, indices, digests, hashseeds=("1", "777")):
    """same runs in fresh interpreters under other PYTHONHASHSEEDs"""
    for hs in hashseeds:
        env = dict(os.environ)
        env["PYTHONHASHSEED"] = hs
        env["VERIF_SEED"] = str(base)
        cmd = [sys.executable, os.path.join(VERIF_DIR, "annetsim", "main.py"), "digest", engine.spec,
               ",".join(map(str, indices))]
        p = subprocess.run(cmd, capture_output=True, text=True, env=env, timeout=1800)
        if p.returncode != 0:
            raise HarnessError("self-test subprocess failed (hashseed %s): %s" % (hs, p.stderr[-2000:]))
        got = [l.split()[1] for l in p.stdout.splitlines() if l.startswith("DIGEST ")]
        if got != digests:
            bad = [indices[k] for k in range(min(len(got), len(digests))) if got[k] != digests[k]]
            raise HarnessError("nondeterminism: runs %s differ in a fresh interpreter with PYTHONHASHSEED=%s" % (bad[:5], hs))


# --------------------------------------------------------------------------- the check
def run_check(engine, tier):
    global _ENGINE
    t0 = time.time()
    base = int(os.environ.get("VERIF_SEED", "0") or 0)
    prop = engine.property_id
    label = engine.spec
    jobs = jobs_default()
    n_runs = int(os.environ.get("VERIF_RUNS", engine.runs[tier]))
    wall = float(os.environ.get("VERIF_BUDGET_S", engine.wall[tier]))
    engine.setup()
    _ENGINE = engine
    print("[%s] engine=%s tier=%s seed=%d runs<=%d wall<=%ds jobs=%d repo=%s" %
          (prop, engine.spec, tier, base, n_runs, wall, jobs, REPO), flush=True)

    # 1. determinism self-test on a sample of this very batch
    k = engine.selftest_n[tier]
    step = max(1, n_runs // k)
    indices = list(range(0, n_runs, step))[:k]
    digests = selftest_sample(engine, base, label, indices)
    if os.environ.get("VERIF_NO_CROSS") != "1":
        selftest_cross(engine, base, label, indices, digests, ("1",) if tier == "quick" else ("1", "777"))
    t_self = time.time() - t0
    print("[%s] determinism self-test ok: %d runs x (2 in-process + choice-list replay + fresh interpreters) in %.1fs"
          % (prop, len(indices), t_self), flush=True)

    # 2. the batch
    chunk = engine.chunk
    agg = {"n": 0, "nontrivial": 0, "sigs": set(), "sim_s": 0.0, "steps": 0,
           "faults": collections.Counter(), "probes": collections.Counter(),
           "strategies": collections.Counter(), "violations": [], "samples": [],
           "fault_free": 0, "runs_with_faults": 0}
    digest_by_index = {}
    ctx = multiprocessing.get_context("fork")
    deadline = t0 + wall
    next_lo = 0
    hard_deadline = t0 + wall * 3 + 600
    with cf.ProcessPoolExecutor(max_workers=jobs, mp_context=ctx) as ex:
        pending = {}

        def submit():
            nonlocal next_lo
            while len(pending) < jobs * 2 and next_lo < n_runs and (tier == "quick" or time.time() < deadline):
                hi = min(n_runs, next_lo + chunk)
                fut = ex.submit(_chunk, (base, label, next_lo, hi, 1))
                pending[fut] = (next_lo, hi)
                next_lo = hi
        submit()
        try:
            while pending:
                done, _ = cf.wait(list(pending), timeout=60, return_when=cf.FIRST_COMPLETED)
                if not done and time.time() > hard_deadline:
                    raise HarnessError("batch exceeded its hard wall-clock limit")
                for fut in done:
                    lo, hi = pending.pop(fut)
                    out = fut.result()
                    agg["n"] += out["n"]
                    agg["nontrivial"] += out["nontrivial"]
                    agg["sigs"] |= out["sigs"]
                    agg["sim_s"] += out["sim_s"]
                    agg["steps"] += out["steps"]
                    agg["fault_free"] += out["fault_free"]
                    agg["runs_with_faults"] += out["runs_with_faults"]
                    for key in ("faults", "probes", "strategies"):
                        agg[key].update(out[key])
                    agg["violations"].extend(out["violations"])
                    if len(agg["samples"]) < 4:
                        agg["samples"].extend(out["samples"][:1])
                    for j, d in enumerate(out["digests"]):
                        if lo + j in indices:
                            digest_by_index[lo + j] = d
                submit()
        except BaseException:
            for p in list(getattr(ex, "_processes", {}).values()):
                try:
                    p.kill()
                except Exception:  # pylint: disable=broad-except
                    pass
            raise
    # batch runs (other worker processes) must equal the in-process self-test runs
    for pos, i in enumerate(indices):
        if i in digest_by_index and digest_by_index[i] != digests[pos]:
            raise HarnessError("nondeterminism: run %d differs between the batch worker and the self-test" % i)

    t_batch = time.time() - t0
    # 3. violations
    known = load_known()
    agg["violations"].sort(key=lambda v: v[0])
    groups = collections.OrderedDict()
    for v in agg["violations"]:
        groups.setdefault((v[2], v[3]), []).append(v)
    known_hit = {}
    reported = []
    exit_code = 0
    for (clause, key), vs in groups.items():
        kf = match_known(known, prop, clause, key)
        if kf is not None:
            known_hit[(clause, key)] = (kf, len(vs), vs[0])
            continue
        if len(reported) >= 3:
            reported.append({"clause": clause, "key": key, "count": len(vs), "replay": None})
            exit_code = 1
            continue
        i, seed, _, _, choices, detail = vs[0]
        budget = getattr(engine, "minimise_budget", {"quick": 1500, "thorough": 6000})[tier]
        small, spent = minimise(engine, choices, (clause, key), budget, 90.0 if tier == "quick" else 600.0)
        ch, res = run_choices(engine, small)
        if not res.get("violation"):
            raise HarnessError("violation %s/%s of run %d vanished on replay from its choice list" % (clause, key, i))
        path = write_replay(engine, seed, list(ch.log), res,
                            {"run_index": i, "original_choices_len": len(choices), "minimise_runs": spent,
                             "occurrences_in_batch": len(vs)})
        ok, outp = replay_in_fresh_process(path)
        if not ok and "NOT REPRODUCED: other violation " in outp:
            # the same choice list violates the property in the fresh process too, but trips a different oracle clause
            # first (verdicts that depend on a resource limit): keep the clause that replays, note the original one
            other = outp.split("NOT REPRODUCED: other violation ", 1)[1].split()[0]
            c2, _, k2 = other.partition("/")
            with open(path) as f:
                doc = json.load(f)
            doc["clause_in_batch"], doc["key_in_batch"] = doc["clause"], doc["key"]
            doc["clause"], doc["key"] = c2, k2
            doc.pop("trace_sha256", None)
            with open(path, "w") as f:
                json.dump(doc, f, indent=1, default=repr)
            ok, outp = replay_in_fresh_process(path)
        if not ok:
            raise HarnessError("replay file %s does not reproduce in a fresh process:\n%s" % (path, outp[-2000:]))
        print("VIOLATION property=%s replay=%s" % (prop, path), flush=True)
        print("  clause=%s key=%s occurrences=%d/%d minimised %d -> %d choices" %
              (clause, key, len(vs), agg["n"], len(choices), len(ch.log)), flush=True)
        reported.append({"clause": clause, "key": key, "count": len(vs), "replay": path})
        exit_code = 1
    for (clause, key), (kf, cnt, first) in known_hit.items():
        print("KNOWN-FINDING: property=%s %s (clause=%s key=%s, %d of %d runs, e.g. run %d)" %
              (prop, kf["what"], clause, key, cnt, agg["n"], first[0]), flush=True)

    # 4. evidence
    wall_s = time.time() - t0
    ev = {
        "property_id": prop, "tier": tier, "seed": base, "level": "exploration",
        "coverage": {
            "evaluations": agg["n"],
            "distinct_nontrivial": len(agg["sigs"]),
            "rule": engine.rule,
            "samples": agg["samples"][:4] or [{"note": "no non-trivial run in this batch"}],
            "nontrivial_runs": agg["nontrivial"],
            "runs_per_hour": int(agg["n"] / max(1e-6, t_batch - t_self) * 3600),
            "seeds": "run i uses sha256(VERIF_SEED:%s:i)[:8], i in [0,%d)" % (label, agg["n"]),
            "sim_seconds_total": round(agg["sim_s"], 1),
            "kernel_steps_total": agg["steps"],
            "fault_counts_fired": dict(sorted(agg["faults"].items())),
            "runs_fault_free": agg["fault_free"],
            "runs_with_faults": agg["runs_with_faults"],
            "probe_hits": dict(sorted(agg["probes"].items())),
            "strategies": dict(sorted(agg["strategies"].items())),
            "determinism_selftest": {"runs": len(indices), "modes": ["same process twice", "choice-list replay",
                                     "fresh interpreter PYTHONHASHSEED=1" + ("" if tier == "quick" else " and 777"),
                                     "batch worker process"], "wall_s": round(t_self, 1)},
            "components_real": engine.components_real,
            "components_stub": engine.components_stub,
            "violations_reported": reported,
            "known_findings_hit": [{"clause": c, "key": k, "runs": cnt} for (c, k), (_, cnt, _) in known_hit.items()],
            "repo_head": repo_head(),
        },
        "assumptions": engine.assumptions,
        "wall_s": round(wall_s, 2),
        "violations": sum(r["count"] for r in reported),
    }
    evdir = os.environ.get("VERIF_EVIDENCE_DIR") or os.path.join(VERIF_DIR, "evidence")
    os.makedirs(evdir, exist_ok=True)
    with open(os.path.join(evdir, "%s.json" % prop), "w") as f:
        json.dump(ev, f, indent=1, default=repr)
    if tier == "thorough":
        # the registered evidence file is rewritten by every run; keep the record of the deep run next to it
        os.makedirs(os.path.join(evdir, "thorough"), exist_ok=True)
        with open(os.path.join(evdir, "thorough", "%s.json" % prop), "w") as f:
            json.dump(ev, f, indent=1, default=repr)
    print("[%s] %d runs, %d non-trivial, %d distinct signatures, %.0f sim-seconds, faults fired=%d, violations=%d, known=%d, %.1fs"
          % (prop, agg["n"], agg["nontrivial"], len(agg["sigs"]), agg["sim_s"], sum(agg["faults"].values()),
             ev["violations"], sum(c for _, c, _ in known_hit.values()), wall_s), flush=True)
    return exit_code
