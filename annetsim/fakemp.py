"""In-process stand-in for `multiprocessing` (DESIGN.md 3.3).

Processes are kernel tasks; queues have mp.Queue's asynchronous put (feeder buffer, FIFO per
producer, no order between producers) and a process cannot finish exiting before its feeder
buffers are flushed -- CPython joins the feeder thread at exit -- so the simulator cannot
report a loss that real multiprocessing cannot produce.
"""
import copy
import itertools
import pickle
import queue as _queue
import threading

from .kernel import Killed


class HardExit(BaseException):
    """os._exit() in a simulated process"""

    def __init__(self, code):
        super().__init__(code)
        self.code = code


class FakeQueue:
    def __init__(self, mp, name):
        self.mp, self.sim, self.name = mp, mp.sim, name
        self.pipe = []
        self.inflight = {}
        self.puts = 0
        self.gets = 0
        self.closed = False

    def put(self, item, block=True, timeout=None):
        sim = self.sim
        me = sim.current
        try:
            item = pickle.loads(pickle.dumps(item))
        except Exception as e:  # pylint: disable=broad-except
            # real mp.Queue.put() never raises for this: the feeder thread fails to pickle the item later,
            # reports it through _on_queue_feeder_error and drops it -- the consumer simply never sees it
            sim.log("put-unpicklable-dropped", self.name, type(e).__name__)
            self.mp.unpicklable.append((self.name, repr(e)[:200]))
            self.puts += 1
            self.gets += 1
            sim.yield_()
            return
        sim.log("put", self.name, self.mp.describe(item))
        self.puts += 1
        d = self.mp.delay("feeder_delay")
        self.inflight[me] = self.inflight.get(me, 0) + 1
        last = me.last_deliv.get(self, 0.0)
        t = max(last, sim.now + d)
        me.last_deliv[self] = t

        def deliver():
            self.inflight[me] -= 1
            if getattr(me, "hard_exited", False):
                sim.log("lost-in-feeder", self.name, self.mp.describe(item))
                self.mp.fired["item_lost_in_feeder_at_hard_exit"] = self.mp.fired.get("item_lost_in_feeder_at_hard_exit", 0) + 1
                return          # the process died before its feeder thread wrote the item to the pipe
            self.pipe.append(item)
        sim.after(t - sim.now, deliver)
        sim.yield_()

    def get(self, block=True, timeout=None):
        sim = self.sim
        self.mp.stall("get")
        if not block:
            sim.yield_()
            if self.pipe:
                return self._take()
            sim.log("get-empty", self.name)
            raise _queue.Empty
        deadline = None if timeout is None else sim.now + timeout
        while True:
            # several consumers may be woken by one item; the losers go back to waiting
            ok = sim.block(lambda: bool(self.pipe), None if deadline is None else deadline - sim.now)
            if self.pipe:
                return self._take()
            if not ok:
                sim.log("get-empty", self.name)
                raise _queue.Empty

    def _take(self):
        it = self.pipe.pop(0)
        self.gets += 1
        self.sim.log("get", self.name, self.mp.describe(it))
        return it

    def get_nowait(self):
        return self.get(False)

    def put_nowait(self, item):
        return self.put(item, False)

    def pending_from(self, task):
        return self.inflight.get(task, 0)

    def qsize(self):
        return self.puts - self.gets

    def empty(self):
        return not self.pipe

    def close(self):
        self.closed = True
        self.sim.log("close", self.name)

    def join_thread(self):
        me = self.sim.current
        self.sim.block(lambda: self.pending_from(me) == 0)

    def cancel_join_thread(self):
        pass


class FakeSimpleQueue:
    """mp.SimpleQueue: no feeder thread -- put() writes into the pipe itself and blocks while the pipe is full"""
    CAPACITY = 65536

    def __init__(self, mp, name):
        self.mp, self.sim, self.name = mp, mp.sim, name
        self.pipe = []          # (item, size)
        self.used = 0

    def put(self, item):
        sim = self.sim
        data = pickle.dumps(item)
        size = len(data) + 4
        sim.log("sput", self.name, self.mp.describe(item), size)
        if not sim.block(lambda: self.used + size <= self.CAPACITY or not self.pipe):
            pass
        self.pipe.append((pickle.loads(data), size))
        self.used += size

    def get(self):
        self.sim.block(lambda: bool(self.pipe))
        item, size = self.pipe.pop(0)
        self.used -= size
        self.sim.log("sget", self.name, self.mp.describe(item))
        return item

    def empty(self):
        return not self.pipe

    def close(self):
        pass

    def pending_from(self, task):
        return 0


class FakeProcess:
    def __init__(self, mp, group=None, target=None, name=None, args=(), kwargs=None, daemon=None):
        self.mp, self.name, self.target = mp, name or "Process-%d" % next(mp.proc_counter), target
        self.args, self.kwargs = tuple(args), dict(kwargs or {})
        self._exitcode = None
        self.pid = None
        self.task = None
        self.daemon = daemon
        self.joined = False

    def start(self):
        mp, sim = self.mp, self.mp.sim
        if self.task is not None:
            raise AssertionError("cannot start a process twice")
        self.pid = next(mp.pid_counter)
        # fork semantics: the child works on a snapshot of the parent's objects, queues excepted
        args = tuple(a if isinstance(a, (FakeQueue, FakeSimpleQueue)) else copy.copy(a) for a in self.args)
        start_delay = mp.delay("start_delay")

        def body():
            code = 0
            try:
                if start_delay:
                    sim.sleep(start_delay)
                self.target(*args, **self.kwargs)
            except SystemExit as e:
                code = e.code if isinstance(e.code, int) else (0 if e.code is None else 1)
            except HardExit as e:
                # os._exit(): no atexit handlers, the queue feeder threads die with whatever they had not written yet
                me = sim.current
                me.hard_exited = True
                self._exitcode = e.code
                sim.log("exit", self.name, e.code, "hard")
                return
            except Killed:
                raise
            except BaseException as e:  # pylint: disable=broad-except
                sim.log("proc-exc", self.name, repr(e)[:200])
                mp.proc_exceptions.append((self.name, repr(e)[:300]))
                code = 1
            me = sim.current
            sim.block(lambda: all(q.pending_from(me) == 0 for q in mp.queues))
            d = mp.delay("exit_delay")
            if d:
                sim.sleep(d)
            self._exitcode = code
            sim.log("exit", self.name, code)
        self.task = sim.spawn(self.name, body, kind="proc")
        mp.by_thread[self.task.thread.ident] = self
        mp.processes.append(self)
        sim.log("start", self.name, self.pid)
        sim.yield_()

    @property
    def exitcode(self):
        self.mp.stall("exitcode")
        return self._exitcode

    def is_alive(self):
        return self.task is not None and self._exitcode is None

    def join(self, timeout=None):
        if self.task is None:
            raise AssertionError("can only join a started process")
        self.mp.sim.block(lambda: self._exitcode is not None, timeout)
        if self._exitcode is not None:
            self.joined = True

    def terminate(self):
        sim = self.mp.sim
        sim.log("terminate", self.name)
        if self._exitcode is None and self.task is not None:
            self.task.killed = True
            self._exitcode = -15
            if self.task.state == "blocked":
                self.task.wake_pred = lambda: True

    kill = terminate

    def close(self):
        pass


class _Main:
    name = "MainProcess"
    pid = 1


class FakeMP:
    """cfg: dict name -> list of candidate delays (drawn per use) plus 'stall_den'/'stall' list"""

    def __init__(self, sim, cfg, real_mp=None):
        self.sim, self.cfg, self._real = sim, cfg, real_mp
        self.queues = []
        self.processes = []
        self.by_thread = {}
        self.pid_counter = itertools.count(1000)
        self.proc_counter = itertools.count(1)
        self.unpicklable = []
        self.proc_exceptions = []
        self.fired = {}

    def describe(self, item):
        return repr(item)[:80]

    def delay(self, kind):
        cands = self.cfg.get(kind) or [0.0]
        v = cands[self.sim.ch.draw(len(cands), kind)]
        if v:
            self.fired[kind] = self.fired.get(kind, 0) + 1
        return v

    def stall(self, where):
        """a sync point at which the calling process may be descheduled for a while"""
        sim = self.sim
        if sim.current is None:
            return
        den = self.cfg.get("stall_den", 0)
        if den and sim.ch.draw(den, "stall") == 0:
            cands = self.cfg.get("stall") or [0.0]
            d = cands[sim.ch.draw(len(cands), "stall-len")]
            if d:
                self.fired["stall"] = self.fired.get("stall", 0) + 1
                sim.sleep(d)
                return
        sim.yield_()

    # ---- the multiprocessing API annet uses
    def Queue(self, maxsize=0):
        q = FakeQueue(self, "q%d" % len(self.queues))
        self.queues.append(q)
        return q

    def SimpleQueue(self):
        q = FakeSimpleQueue(self, "sq%d" % len(self.queues))
        self.queues.append(q)
        return q

    def Process(self, group=None, target=None, name=None, args=(), kwargs=None, daemon=None):
        return FakeProcess(self, group, target, name, args, kwargs, daemon)

    def current_process(self):
        return self.by_thread.get(threading.get_ident(), _Main)

    def cpu_count(self):
        return self.cfg.get("cpus", 4)

    def get_context(self, method=None):
        return self

    def active_children(self):
        return [p for p in self.processes if p.is_alive()]

    def __getattr__(self, item):
        if self._real is not None:
            return getattr(self._real, item)
        raise AttributeError(item)
