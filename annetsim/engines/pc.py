"""C19 -- file-based devices get each changed file once, from the winning generator
(DESIGN.md 5, C19).

Whole-system runs of the real `annet deploy` / `annet diff` for a PC device: seeded Entire
generators (colliding paths, distinct priorities, outputs, reload strings, is_safe), listed in
a drawn order, against a PcDevice file store; observation point is what the DeployDriver
receives (deploy_cmds[device]) and what `annet diff` reports.
"""
import asyncio
import contextlib
import hashlib
import tempfile

from .. import env, simloop
from ..kernel import HarnessError
from ..worlds import fakes as F

PATHS = ["/etc/a.conf", "/etc/b.conf", "/etc/frr/frr.conf", "/etc/network/interfaces", "/etc/c"]
LINES = ["hostname sim", "router bgp 65000", " neighbor 10.0.0.1 remote-as 65001", "!", "log syslog", "iface lo inet loopback",
         "auto lo", "# managed by annet", ""]
SOFTS = ["Ubuntu 22.04", "Cumulus Linux 4.1", "SwitchDev 1.0", "Debian"]


class PcWorld:
    def __init__(self, ch):
        self.ch = ch
        self.faults, self.probes, self.events = {}, {}, []
        self.soft = SOFTS[ch.draw(len(SOFTS), "soft")]
        self.inv = [F.InvDevice(300, "PC")]
        from annet.annlib.netdev.views.hardware import HardwareView
        self.inv[0].hw = HardwareView("PC", self.soft)
        self.files = {}            # the device's file store: path -> text
        self.reload_log = []
        self.fetch_plan, self.deploy_plan = {}, {}
        self.received = {}
        self.cut_happened = set()
        # session commands the transport adds around the per-file work (empty for most drivers)
        self.driver_before = ch.pick([[], [], ["sudo -i"]], "driver-before")
        self.driver_after = ch.pick([[], [], ["sync"]], "driver-after")
        self.driver_exit = ch.pick([[], [], ["exit"]], "driver-exit")
        ngens = 1 + ch.draw(5, "ngens")
        # priorities are pairwise distinct but otherwise arbitrary integers: zero, negative, around the class default (100)
        prios = ch.sample([-7, -1, 0, 1, 2, 10, 50, 99, 101, 150, 1000], ngens, "prios")
        self.specs = []
        for i in range(ngens):
            self.specs.append({
                "name": "SimEntire%d" % i,
                "path": PATHS[ch.draw(3 if ch.draw(2, "collide") else len(PATHS), "path")],
                "prio": prios[i] if ch.draw(6, "default-prio") else None,     # None: class default (100)
                "parts": self.draw_parts(ch),
                "reload": ch.pick([None, "", "systemctl reload frr", "ifreload -a", "service x restart"], "reload"),
                "is_safe": ch.draw(2, "safe") == 1,
                # declines this device only when asked to render (NotSupportedDevice from run()): it then does not compete
                "declines": ch.draw(7, "declines") == 0,
            })
        # at most one generator may rely on the default priority, priorities stay pairwise distinct
        seen_default = False
        for s in self.specs:
            if s["prio"] is None:
                if seen_default:
                    s["prio"] = 2000 + self.specs.index(s)
                seen_default = True
        self.order = list(range(ngens))

    def draw_parts(self, ch):
        style = ch.draw(6, "out-style")
        if style == 0:
            return [""]                                        # generated empty
        n = 1 + ch.draw(4, "out-n")
        parts = [LINES[ch.draw(len(LINES), "out-line")] for _ in range(n)]
        if style == 1:
            parts[-1] = parts[-1] + "\n"                       # trailing newline
        if style == 2:
            parts = ["\n".join(parts)]                         # one multi-line string
        if style == 3:
            parts = [tuple(p.split()) if p.split() else p for p in parts]
        return parts

    @staticmethod
    def content(parts):
        out = []
        for p in parts:
            out.append(" ".join(p) if isinstance(p, tuple) else p)
        return "\n".join(out)

    def fire(self, kind):
        self.faults[kind] = self.faults.get(kind, 0) + 1

    def probe(self, kind):
        self.probes[kind] = self.probes.get(kind, 0) + 1

    def event(self, *a):
        self.events.append((len(self.events), round(simloop._installed.clock.now, 3), "world") + a)

    def show_config(self, inv):
        return ""

    def fetch_files(self, inv, paths):
        return {p: self.files.get(p) for p in paths}

    async def play(self, inv, cmds, args):
        # cmds: {"files": {path: bytes}, "cmds": {path: bytes}, ...}
        self.received[inv.id] = {"files": dict(cmds.get("files", {})), "cmds": dict(cmds.get("cmds", {})),
                                 "generator_types": {k: str(v) for k, v in cmds.get("generator_types", {}).items()}}
        for path, data in cmds.get("files", {}).items():
            await asyncio.sleep(0.2)
            self.files[path] = data.decode()
            self.event("upload", path, len(data))
        for path, data in cmds.get("cmds", {}).items():
            await asyncio.sleep(0.5)
            self.reload_log.append((path, data.decode()))
            self.event("reload", path, data.decode()[:40])
        return "ok"


def host_path(spec, hostname):
    """some generators write a path that carries the device's name"""
    return "%s.d/%s.conf" % (spec["path"], hostname) if spec.get("per_host") else spec["path"]


def make_entire(spec, world):
    from annet.generators import Entire

    def path(self, device):
        return host_path(spec, device.hostname)

    def run(self, device):
        if spec.get("declines"):
            from annet.generators import NotSupportedDevice
            raise NotSupportedDevice("simulated: generator %s does not support %s" % (spec["name"], device.hostname))
        for p in spec["parts"]:
            yield p

    def reload(self, device):
        return spec["reload"]

    def is_safe(self, device):
        return spec["is_safe"]
    attrs = {"path": path, "run": run, "reload": reload, "is_safe": is_safe, "TAGS": []}
    if spec["prio"] is not None:
        attrs["prio"] = spec["prio"]
    cls = type(spec["name"], (Entire,), attrs)
    return cls(F.SimStorage())


class Engine:
    name = "pc"
    spec = "pc"
    property_id = "C19"
    runs = {"quick": 8000, "thorough": 3000000}
    wall = {"quick": 300, "thorough": 600}
    selftest_n = {"quick": 24, "thorough": 96}
    chunk = 50
    isolate = True      # every run in a child forked from the pristine engine process (annet keeps process-global caches)
    minimise_budget = {"quick": 500, "thorough": 2000}
    rule = ("one run = one seeded history of the real `annet diff` and `annet deploy` for a whole-file (PC) device: 1-5 Entire "
            "generators (paths with collisions, pairwise distinct priorities incl. the class default, outputs as strings / tuples "
            "/ multi-line, with or without final newline, empty; reload strings; is_safe), listed in a drawn order (in a third of the "
            "runs the same generator objects then also serve 2-3 devices of one platform, some paths carrying the host name); device file "
            "store drawn equal / different / permuted / trailing blanks / absent / newline-only different / empty; entire_reload in {yes,no,force}; 2-4 steps "
            "of (generators change | someone edits a file | file fetch fails | diff | deploy, device applies the upload). "
            "Non-trivial = >=1 file uploaded. Distinct = SHA-256 over (listing order, per-step upload sets, reload mode).")
    components_real = ["annet.api.adeploy / PCDeployerJob.parse_result / Deployer", "annet.api.diff -> annet.diff.worker / pc_diff / "
                       "UnifiedFileDiffer", "annet.gen.old_new (file download, split_downloaded_files)", "annet.generators."
                       "run_file_generators / RunGeneratorResult.add_entire / new_files", "Entire.__call__ / get_reload_cmds",
                       "shipped pc rulebook (deploy rules)"]
    components_stub = ["inventory", "fetcher (serves the PcDevice file store)", "deploy driver (applies uploads to the PcDevice, logs "
                       "reload commands)", "event loop (virtual time)"]
    assumptions = ["priorities are pairwise distinct (as the property states)", "reload string of a generator = Entire.get_reload_cmds: "
                   "reload() plus the etckeeper suffix on Cumulus/SwitchDev/SONiC softs"]

    def __init__(self, tier="quick"):
        self.tier = tier
        self.args = {}
        self._capfile = None

    def setup(self):
        env.init()
        F.install()
        simloop.install()
        import annet.api as api
        from annet import cli_args, filtering
        from .. import runner
        self.api, self.cli_args = api, cli_args
        self.filterer = filtering.filterer_connector.get()
        self.known_open = set((k["clause"], k["key"]) for k in runner.load_known()
                              if k.get("status") == "open" and k["property"] == "C19")
        from annet import rulebook
        from annet.annlib.netdev.views.hardware import HardwareView
        for soft in SOFTS:
            rulebook.get_rulebook(HardwareView("PC", soft))

    @contextlib.contextmanager
    def _captured(self):
        if self._capfile is None:
            self._capfile = tempfile.TemporaryFile("w+")
        f = self._capfile
        f.seek(0)
        f.truncate()
        with contextlib.redirect_stdout(f), contextlib.redirect_stderr(f):
            yield f

    def _loader(self, world):
        gens = [make_entire(world.specs[i], world) for i in world.order]
        return F.SimLoader(world.inv, lambda d: ([], gens))

    def deploy(self, world, reload_flag, acl_safe=False):
        from .cli import AnnetCrashed
        args = self.cli_args.DeployOptions(query=F.SimQuery(), config="running", parallel=1, tolerate_fails=True, indent="  ",
                                           no_ask_deploy=True, no_check_diff=True, no_progress=True, acl_safe=acl_safe,
                                           entire_reload=self.cli_args.EntireReloadFlag(reload_flag))
        deployer = self.api.Deployer(args)
        world.received = {}
        with self._captured():
            try:
                rc = simloop.run(self.api.adeploy(args, self._loader(world), deployer, self.filterer, F.SimFetcher(),
                                                  F.SimDeployDriver()))
            except HarnessError:
                raise
            except Exception as e:  # pylint: disable=broad-except
                raise AnnetCrashed(e)
        return rc, deployer

    def diff(self, world, acl_safe=False):
        import annet.gen as ann_gen
        from .cli import AnnetCrashed
        args = self.cli_args.ShowDiffOptions(query=F.SimQuery(), config="running", parallel=1, tolerate_fails=True, indent="  ",
                                             acl_safe=acl_safe)
        ann_gen.live_configs = None
        loader = self._loader(world)
        with self._captured():
            try:
                ok, fail = self.api.diff(args, loader, loader.device_ids)
            except HarnessError:
                raise
            except Exception as e:  # pylint: disable=broad-except
                raise AnnetCrashed(e)
        return ok, fail

    # ------------------------------------------------------------------ reference model
    def _reference(self, world, acl_safe=False):
        """planned content per path: the highest-priority generator for the path; in safe mode the path is planned only
        when that winner declares itself safe (the safe filter never promotes a losing generator)"""
        winners = {}
        for s in world.specs:
            if s.get("declines"):
                continue
            prio = 100 if s["prio"] is None else s["prio"]
            if s["path"] not in winners or prio > winners[s["path"]][0]:
                winners[s["path"]] = (prio, s)
        new, reload = {}, {}
        for p, (_prio, s) in winners.items():
            if acl_safe and not s["is_safe"]:
                continue
            new[p] = PcWorld.content(s["parts"])
            r = s["reload"] or ""
            if world.soft.startswith(("Cumulus", "SwitchDev", "SONiC")):
                r = "\n".join(([r] if r else []) + ["/usr/bin/etckeeper commitreload %s" % p])
            reload[p] = r
        return new, reload, {p: s["name"] for p, (_x, s) in winners.items() if p in new}

    @staticmethod
    def _known_kind(old, new):
        if old is None and new.splitlines() == []:
            return "absent-vs-empty"
        if old is not None and old != new and old.splitlines() == new.splitlines():
            return "newline-only"
        return None

    def run(self, ch):
        from .cli import AnnetCrashed, V
        world = PcWorld(ch)
        F.WORLD = world
        simloop._installed.clock.now = 0.0
        steps_log = []
        deferred = []
        violation = None

        def report(v):
            """known open findings do not stop the run: a different violation later in the history must still surface"""
            if (v["clause"], v["key"]) in self.known_open:
                deferred.append(v)
                return None
            return v
        try:
            try:
                violation = self._history(ch, world, steps_log, report)
            except AnnetCrashed as e:
                violation = V("annet-raised", "%s:%s" % (type(e.exc).__name__, e.where), exception=repr(e.exc)[:400])
            if violation is None and ch.draw(3, "shared-generators") == 0:
                violation = self._shared_generators(ch, world)
        finally:
            F.WORLD = None
        if violation is None and deferred:
            violation = deferred[0]
        h = hashlib.sha256(repr((world.order, steps_log)).encode())
        scenario = {"soft": world.soft, "generators": [dict(s, parts=[list(p) if isinstance(p, tuple) else p for p in s["parts"]])
                                                       for s in world.specs], "listing_order": world.order, "steps": steps_log}
        return {"violation": violation, "nontrivial": any(s.get("uploaded") for s in steps_log),
                "sig": int.from_bytes(h.digest()[:8], "big"), "sim_s": simloop._installed.clock.now, "steps": len(world.events),
                "faults": world.faults, "probes": world.probes, "strategy": world.soft.split()[0], "scenario": scenario,
                "trace": world.events}

    def _shared_generators(self, ch, world):
        """the same generator objects serve several devices of one platform, one after the other (as within one annet
        process); some generators write to a path that carries the device's name"""
        from .cli import V
        from annet.annlib.netdev.views.hardware import HardwareView
        from annet.generators import run_file_generators
        devs = []
        for k in range(2 + ch.draw(2, "sg-ndev")):
            d = F.InvDevice(310 + k, "PC")
            d.hw = HardwareView("PC", world.soft)
            devs.append(d)
        specs = [dict(s, per_host=ch.draw(2, "sg-per-host") == 1) for s in world.specs]
        gens = [make_entire(specs[i], world) for i in world.order]
        visits = [devs[ch.draw(len(devs), "sg-visit")] for _ in range(len(devs) + ch.draw(3, "sg-extra"))]
        world.probe("generator_objects_shared_by_devices")
        for d in visits:
            try:
                got = run_file_generators(gens, d).new_files()
            except HarnessError:
                raise
            except Exception as e:  # pylint: disable=broad-except
                return V("annet-raised", "%s:shared-generators" % type(e).__name__, exception=repr(e)[:300])
            winners = {}
            for s in specs:
                if s.get("declines"):
                    continue
                prio, p = 100 if s["prio"] is None else s["prio"], host_path(s, d.hostname)
                if p not in winners or prio > winners[p][0]:
                    winners[p] = (prio, s)
            want = {}
            for p, (_prio, s) in winners.items():
                r = s["reload"] or ""
                if world.soft.startswith(("Cumulus", "SwitchDev", "SONiC")):
                    r = "\n".join(([r] if r else []) + ["/usr/bin/etckeeper commitreload %s" % p])
                want[p] = (PcWorld.content(s["parts"]), r)
            if got != want:
                paths = sorted(set(got) ^ set(want))
                return V("planned-files-differ", "paths-of-another-device" if paths else "shared-generators", device=d.hostname,
                         visits=[x.hostname for x in visits], want=sorted(want), got=sorted(got),
                         differing=[p for p in want if p in got and got[p] != want[p]][:3])
        return None

    def _history(self, ch, world, steps_log, report):
        from .cli import V
        nsteps = 2 + ch.draw(3, "nsteps")
        for step in range(nsteps):
            # --- the world moves
            if step == 0 or ch.draw(2, "gens-change") == 1:
                for s in world.specs:
                    if step == 0 or ch.draw(3, "regen") == 0:
                        s["parts"] = world.draw_parts(ch)
            world.order = ch.shuffle(list(range(len(world.specs))), "listing")
            acl_safe = ch.draw(4, "acl-safe") == 0
            new, reload, winner = self._reference(world, acl_safe)
            all_new = self._reference(world, False)[0]
            for p in sorted(new):
                rel = ch.weighted([(3, "keep"), (2, "equal"), (2, "different"), (1, "absent"), (1, "newline-only"), (1, "empty"),
                                   (2, "reordered"), (1, "trailing-blanks")], "file-relation")
                if step > 0 and rel == "keep":
                    continue
                if rel in ("keep", "equal"):
                    world.files[p] = new[p]
                elif rel == "different":
                    world.files[p] = new[p] + "\nedited by hand"
                    world.fire("oob_edit")
                elif rel == "reordered":
                    lines = new[p].split("\n")
                    perm = lines[1:] + lines[:1] if len(set(lines)) > 1 else lines + ["edited by hand"]
                    world.files[p] = "\n".join(perm)        # same lines, another order
                    world.fire("oob_edit")
                elif rel == "trailing-blanks":
                    lines = new[p].split("\n")
                    k = ch.draw(len(lines), "blank-line")
                    lines[k] = lines[k] + ch.pick([" ", "  ", "\t"], "blank-kind")   # differs only in blanks at a line end
                    world.files[p] = "\n".join(lines)
                    world.fire("oob_edit")
                elif rel == "absent":
                    world.files.pop(p, None)
                elif rel == "newline-only":
                    world.files[p] = new[p][:-1] if new[p].endswith("\n") else new[p] + "\n"
                else:
                    world.files[p] = ""
            flag = ch.pick(["yes", "yes", "no", "force"], "entire-reload")
            fetch_fail = ch.draw(8, "fetch-fail") == 0
            world.fetch_plan = {world.inv[0].id: {"fail": "exc"}} if fetch_fail else {}
            old = dict(world.files)
            entry = {"step": step, "reload": flag, "fetch_fail": fetch_fail, "listing": list(world.order), "acl_safe": acl_safe,
                     "files": {p: [None if old.get(p) is None else len(old[p]), len(new[p])] for p in sorted(new)}}
            steps_log.append(entry)
            # --- annet diff
            ok, fail = self.diff(world, acl_safe)
            dev_id = world.inv[0].id
            if fetch_fail:
                if dev_id not in fail and ok.get(dev_id):
                    return V("diff-despite-failed-fetch", "fetch-fail", step=step)
                world.probe("diff_failed_fetch_reported")
            else:
                if dev_id in fail:
                    return V("diff-failed", "diff-exc", step=step, exc=repr(fail[dev_id])[:300])
                pcd = ok.get(dev_id)
                shown = {}
                if pcd is not None and hasattr(pcd, "diff_files"):
                    for f in pcd.diff_files:
                        label = f.label
                        for p in all_new:
                            if label.endswith(world.inv[0].hostname + "/" + p):
                                shown[p] = f.diff_lines
                for p in sorted(new):
                    differs = old.get(p) != new[p]
                    if differs and p not in shown:
                        kind = self._known_kind(old.get(p), new[p])
                        v = report(V("diff-empty-although-contents-differ", kind or "diff-empty", step=step, path=p,
                                     old=old.get(p), new=new[p]))
                        if v:
                            return v
                    if not differs and p in shown:
                        return V("diff-shown-although-contents-equal", "diff-nonempty", step=step, path=p, lines=shown[p][:10])
                for p in shown:
                    if p not in new:
                        return V("diff-for-unplanned-path", "diff-extra", step=step, path=p)
                world.probe("diff_compared")
            # --- annet deploy
            rc, deployer = self.deploy(world, flag, acl_safe)
            got = world.received.get(dev_id)
            if fetch_fail:
                if got is not None:
                    return V("upload-despite-failed-fetch", "fetch-fail", step=step, received=sorted(got["files"]))
                if world.inv[0].fqdn not in deployer.failed_configs:
                    return V("failed-fetch-not-reported", "fetch-fail", step=step)
                world.fire("fetch_fail_files")
                continue
            force = flag == "force"
            want_files = {p: new[p].encode() for p in new if old.get(p) != new[p] or force}
            tail = "\n".join(world.driver_after + world.driver_exit)
            # reload command only when reloads are enabled; the transport's own closing commands run in any case
            if flag != "no":
                want_cmds = {p: (reload[p] + ("\n" + tail if tail else "")).encode() for p in want_files}
            else:
                want_cmds = {p: tail.encode() for p in want_files} if tail else {}
            got_files = got["files"] if got else {}
            got_cmds = got["cmds"] if got else {}
            entry["uploaded"] = sorted(got_files)
            for p in sorted(set(want_files) | set(got_files)):
                if p in want_files and p not in got_files:
                    kind = self._known_kind(old.get(p), new[p])
                    v = report(V("changed-file-not-uploaded", kind or "upload-missing", step=step, path=p, old=old.get(p),
                                 new=new[p], reload=flag, winner=winner[p]))
                    if v:
                        return v
                    continue
                if p not in want_files:
                    key = "unsafe-winner-replaced-by-loser" if (acl_safe and p not in new) else "upload-extra"
                    return V("unchanged-file-uploaded", key, step=step, path=p, reload=flag, acl_safe=acl_safe)
                if got_files[p] != want_files[p]:
                    other = [s["name"] for s in world.specs if s["path"] == p and PcWorld.content(s["parts"]).encode() == got_files[p]]
                    return V("wrong-bytes-uploaded", "losing-generator" if other else "content", step=step, path=p,
                             want=want_files[p].decode(), got=got_files[p].decode(), winner=winner[p], matches=other,
                             listing=[world.specs[i]["name"] for i in world.order])
            for p in sorted(set(want_cmds) | set(got_cmds)):
                if p not in got_files:
                    if p in got_cmds:
                        return V("reload-without-upload", "reload-extra", step=step, path=p)
                    continue
                if p in want_cmds and p not in got_cmds:
                    return V("reload-command-missing", "reload-missing", step=step, path=p, reload=flag)
                if p not in want_cmds or (flag == "no" and got_cmds[p] != want_cmds[p]):
                    return V("reload-sent-although-disabled", "reload-when-no", step=step, path=p, reload=flag,
                             got=got_cmds[p].decode())
                if got_cmds[p] != want_cmds[p]:
                    return V("wrong-reload-command", "reload-content", step=step, path=p, want=want_cmds[p].decode(),
                             got=got_cmds[p].decode(), winner=winner[p])
            world.probe("deploy_compared")
            # --- the device applied the upload: the next (non-forced) run must upload nothing
            if got_files:
                for p in got_files:
                    if world.files.get(p) != got_files[p].decode():
                        raise HarnessError("PcDevice did not store the upload")
                old2 = dict(world.files)
                rc2, deployer2 = self.deploy(world, "yes", acl_safe)
                again = world.received.get(dev_id)
                if again and again["files"]:
                    return V("upload-repeated-after-apply", "not-idempotent", step=step, paths=sorted(again["files"]))
                world.probe("second_deploy_uploads_nothing")
                world.files = old2
        return None
