"""C16 -- file mode and device mode compute the same diff and the same patch (DESIGN.md 5, C16).

World states (vendor, hw, old, new) -- the shipped corpus in both directions, its per-vendor
cross products and seeded mutations -- are written to files for 1..8 hosts; the real
`annet file-patch` / `annet file-diff` front ends run over them through the real Parallel on
the simulated multiprocessing (so delivery is checked too), and every host's output is
compared with the device front end (_diff_and_patch on the trees parsed from the same texts).
"""
import hashlib
import os
import shutil
import tempfile

from .. import env, seams, simloop
from ..fakemp import FakeMP
from ..kernel import Sim, FakeTime, Deadlock, StepCap, HarnessError

FLAT_VENDORS = ("juniper", "ribbon", "nokia", "routeros")

# concrete hardware models per corpus vendor key: rulebook templates and logic functions branch on the model
MODELS = {
    "huawei": ["Huawei", "Huawei CE6870", "Huawei NE40E", "Huawei S5700", "Huawei Quidway S2326", "Huawei CE12800"],
    "huawei ce": ["Huawei CE0000", "Huawei CE6870"],
    "cisco": ["Cisco Catalyst", "Cisco Catalyst 3750", "Cisco"],
    "nexus": ["Cisco Nexus", "Cisco Nexus 3172"],
    "asr": ["Cisco ASR", "Cisco ASR 9000"],
    "arista": ["Arista", "Arista DCS-7050"],
    "juniper": ["Juniper", "Juniper MX480", "Juniper QFX5100"],
    "aruba": ["Aruba", "Aruba AP-325"],
}


def huawei_device_style(tree):
    """the way a Huawei box prints its configuration: '#' separator lines around every block, global commands with one
    leading space (annet's own formatter prints neither)"""
    lines = ["#"]

    def emit(t, ind):
        for r, sub in t.items():
            lines.append(" " * ind + r)
            emit(sub, ind + 1)
    for row, sub in tree.items():
        if sub:
            if lines[-1] != "#":
                lines.append("#")
            lines.append(row)
            emit(sub, 1)
            lines.append("#")
        else:
            lines.append(" " + row)
    return "\n".join(lines) + "\n"


class FilesMP(FakeMP):
    def describe(self, item):
        t = getattr(item, "type", None)
        if t is not None:
            p = getattr(item, "payload", None)
            return "task(%s,%s)" % (getattr(t, "value", t), os.path.basename(p[0]) if isinstance(p, tuple) else p)
        if isinstance(item, tuple) and len(item) == 4:
            p = getattr(item[1], "payload", None)
            return "result(%s,%s,exc=%s)" % (item[0], os.path.basename(p[0]) if isinstance(p, tuple) else p,
                                             type(item[3]).__name__ if item[3] is not None else None)
        return type(item).__name__


class ListingOs(seams.OsProxy):
    """os for annet.api: directory listings come back in an order the simulator draws"""

    def __init__(self, sim, real, ch):
        super().__init__(sim, real)
        self._ch = ch

    def listdir(self, path="."):
        names = sorted(self._real.listdir(path))
        return self._ch.shuffle(names, "listdir")


class Engine:
    name = "files"
    spec = "files"
    property_id = "C16"
    runs = {"quick": 4000, "thorough": 600000}
    wall = {"quick": 300, "thorough": 900}
    selftest_n = {"quick": 12, "thorough": 48}
    chunk = 20
    isolate = True      # a run must not see caches an earlier run of the same worker filled
    minimise_budget = {"quick": 200, "thorough": 1000}
    rule = ("one run = one seeded batch of 1-8 hosts of one vendor; each host's world state (old, new) is a shipped corpus pair "
            "(forward or reversed), a cross product of two samples of the vendor, or a seeded mutation (rows dropped / grafted "
            "from other samples), a sample with a multi-line VLAN list inside an interface of which some lines stay, or a change of "
            "nesting only; the configs are written to old/<host>.cfg and new/<host>.cfg by the vendor formatter in a "
            "scratch directory listed in a drawn order, then the real api.file_patch and api.file_diff run through the real "
            "Parallel on simulated multiprocessing (pool size, max_tasks, delays, schedule drawn) and each host's patch and diff "
            "text is compared with the device front end on the trees parsed from the same files. Non-trivial = >=1 host with a "
            "non-empty patch. Distinct = SHA-256 over (vendor, per-host state names and modes, pool schedule).")
    components_real = ["annet.api.file_patch / file_diff / _read_old_new_cfgdumps / file_*_worker / _read_old_new_diff_patch",
                       "annet.api._diff_and_patch (device front end)", "annet.parallel.Parallel, pool workers", "shipped rulebooks "
                       "and logic functions", "vendor formatters (join, split, patch)", "real files in a scratch directory"]
    components_stub = ["multiprocessing / time inside annet.parallel (FakeMP on the kernel)", "os.listdir order inside annet.api "
                       "(drawn permutation)"]
    assumptions = ["hardware is given explicitly (args.hw), no guessing", "no ACL, implicit defaults off, add_comments off -- as the "
                   "property states", "the device front end is fed the trees parsed from the very same files"]

    def __init__(self, tier="quick"):
        self.tier = tier
        self.args = {}

    def setup(self):
        env.init()
        simloop.install()
        import annet.api as api
        import annet.parallel as P
        from annet import cli_args
        self.api, self.P, self.cli_args = api, P, cli_args
        self.corpus = env.load_corpus()
        self.by_vendor = {}
        for i, s in enumerate(self.corpus):
            self.by_vendor.setdefault(s["vendor"], []).append(i)
        self.vendors = sorted(self.by_vendor)
        self.base = os.environ.get("VERIF_SCRATCH") or tempfile.gettempdir()
        # compile the shipped rulebooks once, in the engine process: run children are forked from it
        from annet import rulebook
        from annet.annlib.netdev.views.hardware import HardwareView
        for vendor in self.vendors:
            for m in MODELS.get(vendor) or [env.HW_STUB[vendor]]:
                rulebook.get_rulebook(HardwareView(m, None))

    # ------------------------------------------------------------------ world states
    def _state(self, ch, vendor):
        import copy
        idx = self.by_vendor[vendor]
        a = self.corpus[idx[ch.draw(len(idx), "sample")]]
        mode = ch.weighted([(3, "fwd"), (3, "rev"), (2, "cross"), (2, "mutated"), (1, "renest"), (1, "vlan-lines")], "state-mode")
        if mode == "vlan-lines":
            st = self._vlan_lines(ch, vendor, a)
            if st is not None:
                return st
            mode = "fwd"
        if mode == "fwd":
            return a["name"] + " fwd", copy.deepcopy(a["old"]), copy.deepcopy(a["new"])
        if mode == "rev":
            return a["name"] + " rev", copy.deepcopy(a["new"]), copy.deepcopy(a["old"])
        if mode == "renest":
            # same lines in the same order, only the nesting differs: the last child of a block becomes its sibling
            from collections import OrderedDict as odict
            old = copy.deepcopy(a["old"] if ch.draw(2, "renest-side") else a["new"])
            blocks = [r for r, sub in old.items() if sub]
            if blocks:
                pick = blocks[ch.draw(len(blocks), "renest-block")]
                new = odict()
                for row, sub in old.items():
                    if row == pick:
                        kept = odict(list(sub.items())[:-1])
                        last_row, last_sub = list(sub.items())[-1]
                        new[row] = kept
                        if last_row not in old:
                            new[last_row] = copy.deepcopy(last_sub)
                    elif row not in new:
                        new[row] = copy.deepcopy(sub)
                return a["name"] + " renest", old, new
            return a["name"] + " fwd", copy.deepcopy(a["old"]), copy.deepcopy(a["new"])
        b = self.corpus[idx[ch.draw(len(idx), "sample2")]]
        if mode == "cross":
            side = ch.draw(4, "cross-side")
            old = a["old"] if side & 1 else a["new"]
            new = b["new"] if side & 2 else b["old"]
            return "%s x %s (%d)" % (a["name"], b["name"], side), copy.deepcopy(old), copy.deepcopy(new)
        old, new = copy.deepcopy(a["old"]), copy.deepcopy(a["new"])

        def mutate(t, donor, depth=0):
            for row in list(t.keys()):
                r = ch.draw(8, "mut")
                if r == 0:
                    del t[row]
                elif t[row] and r < 4:
                    mutate(t[row], donor.get(row, donor) if isinstance(donor, dict) else {}, depth + 1)
            if isinstance(donor, dict):
                for row, sub in donor.items():
                    if row not in t and ch.draw(4, "graft") == 0:
                        t[row] = copy.deepcopy(sub)
        mutate(new, b["new"])
        if ch.draw(2, "mut-old") == 1:
            mutate(old, b["old"])
        return "%s mutated(+%s)" % (a["name"], b["name"]), old, new

    def _vlan_lines(self, ch, vendor, sample):
        """a shipped configuration plus an interface whose VLAN list spreads over several lines: some lines stay, others go,
        come or change (the patch logic of such lists reads the lines that stay)"""
        import copy
        from collections import OrderedDict as odict
        if vendor.startswith("huawei"):
            head = ch.pick(["port trunk allow-pass vlan", "port hybrid tagged vlan", "port hybrid untagged vlan"], "vl-kind")
            iface = "interface GE1/0/%d" % (1 + ch.draw(4, "vl-if"))

            def lines(chunks):
                return ["%s %s" % (head, " ".join("%d to %d" % (a, b) if b > a else "%d" % a for a, b in grp)) for grp in chunks]
        elif vendor in ("cisco", "nexus"):
            iface = "interface GigabitEthernet1/0/%d" % (1 + ch.draw(4, "vl-if"))

            def lines(chunks):
                out = []
                for k, grp in enumerate(chunks):
                    out.append("switchport trunk allowed vlan %s%s" % ("add " if k else "", ",".join(
                        "%d-%d" % (a, b) if b > a else "%d" % a for a, b in grp)))
                return out
        else:
            return None
        # disjoint ranges, grouped into lines
        nchunks = 3 + ch.draw(3, "vl-n")
        groups, lo = [], 2
        for _ in range(nchunks):
            grp = []
            for _ in range(1 + ch.draw(2, "vl-per-line")):
                lo += 1 + ch.draw(9, "vl-gap")
                hi = lo + ch.pick([0, 0, 3, 10], "vl-len")
                grp.append((lo, hi))
                lo = hi + 1
            groups.append(grp)
        keep = [ch.draw(4, "vl-fate") for _ in groups]     # 0 stays, 1 goes, 2 comes, 3 changes
        keep[0] = 0
        if all(k == 0 for k in keep):
            keep[-1] = 1
        old_g, new_g = [], []
        for grp, k in zip(groups, keep):
            if k in (0, 1, 3):
                old_g.append(grp)
            if k in (0, 2):
                new_g.append(grp)
            if k == 3:
                a, b = grp[-1]
                new_g.append(grp[:-1] + [(a, b + 1)])
        trees = []
        for base, gl in ((sample["old"], old_g), (sample["new"], new_g)):
            t = copy.deepcopy(base)
            blk = odict((x, odict()) for x in ["description vlan lines"] + lines(gl))
            if ch.draw(3, "vl-extra") == 0:
                blk["mtu 9000"] = odict()
            t[iface] = blk
            trees.append(t)
        return sample["name"] + " +vlan-lines", trees[0], trees[1]

    # ------------------------------------------------------------------ one run
    def run(self, ch):
        from annet import tabparser
        from annet import patching
        from annet.annlib.diff import gen_pre_as_diff
        api, P = self.api, self.P
        vendor = self.vendors[ch.draw(len(self.vendors), "vendor")]
        from annet.annlib.netdev.views.hardware import HardwareView
        models = MODELS.get(vendor) or [env.HW_STUB[vendor]]
        hw = HardwareView(models[ch.draw(len(models), "model")], None)
        if hw.vendor != env.hw_stub(vendor).vendor:
            raise HarnessError("model %r resolved to vendor %r" % (hw.model, hw.vendor))
        fmt = env.formatter(hw, "  ")
        self._hw_model = hw.model
        nhosts = ch.weighted([(2, 1), (3, 2), (3, 3), (2, 4), (1, 6), (1, 8)], "nhosts")
        run_dir = tempfile.mkdtemp(prefix="annetsim-files-", dir=self.base)
        faults, probes = {}, {}
        try:
            os.makedirs(os.path.join(run_dir, "old"))
            os.makedirs(os.path.join(run_dir, "new"))
            hosts = []
            for h in range(nhosts):
                name, old, new = self._state(ch, vendor)
                host = "host%d.cfg" % h
                texts = []
                for tree in (old, new):
                    if vendor.startswith("huawei") and ch.draw(2, "device-style") == 1:
                        texts.append(huawei_device_style(tree))
                        probes["huawei_device_style_text"] = 1
                    else:
                        texts.append(fmt.join(tree) + "\n")
                texts = tuple(texts)
                for side, text in zip(("old", "new"), texts):
                    with open(os.path.join(run_dir, side, host), "w") as f:
                        f.write(text)
                hosts.append({"host": host, "state": name, "texts": texts})
            if ch.draw(5, "orphan") == 0:
                with open(os.path.join(run_dir, "old", "orphan.cfg"), "w") as f:
                    f.write("\n")          # no counterpart in new/: must be ignored
                probes["orphan_file_in_old"] = 1
            # ---- device front end on the trees parsed from the same files
            want = {}
            for h in hosts:
                class Dev:
                    pass
                d = Dev()
                d.hw = hw
                try:
                    old = tabparser.parse_to_tree(text=h["texts"][0], splitter=fmt.split)
                    new = tabparser.parse_to_tree(text=h["texts"][1], splitter=fmt.split)
                    diff, pt = api._diff_and_patch(d, old, new, None, None, False)
                    ptext = api._format_patch_blocks(pt, hw, "  ")
                    dtext = "".join(gen_pre_as_diff(patching.make_pre(diff), False, "  ", True))
                    want[h["host"]] = ("OK", ptext, dtext)
                except Exception as e:  # pylint: disable=broad-except
                    want[h["host"]] = ("EXC", type(e).__name__, str(e)[:200])
            # ---- file front end through the simulated pool
            par = 1 + ch.draw(4, "parallel")
            max_tasks = ch.pick([None, 1, 2, 25], "max_tasks")
            cfg = {"feeder_delay": [0.0, 0.01, 0.3], "start_delay": [0.0, 0.2], "exit_delay": [0.0, 0.2, 1.1],
                   "stall_den": ch.pick([0, 6], "stall"), "stall": [0.01, 0.6]}
            results = {}
            sims = []
            for front in ("patch", "diff"):
                sim = Sim(ch, max_steps=40000, strategy={"kind": "uniform"}, time_limit=5000.0)
                mp = FilesMP(sim, cfg)
                outcome = {}

                def parent(front=front, outcome=outcome):
                    try:
                        cls = self.cli_args.FilePatchOptions if front == "patch" else self.cli_args.FileDiffOptions
                        kw = dict(old=os.path.join(run_dir, "old"), new=os.path.join(run_dir, "new"), hw=hw.model, parallel=par,
                                  max_tasks=max_tasks, indent="  ", no_color=True)
                        if front == "patch":
                            kw["add_comments"] = False
                        else:
                            kw["show_rules"] = False
                        args = cls(**kw)
                        fn = api.file_patch if front == "patch" else api.file_diff
                        outcome["res"] = fn(args)
                    except BaseException as e:  # pylint: disable=broad-except
                        if type(e).__name__ == "Killed":
                            raise
                        outcome["exc"] = e
                saved = seams.bind(P, sim, fake_mp=mp, fake_time=FakeTime(sim, __import__("time")),
                                   fake_os=seams.OsProxy(sim, os), require=("mp", "time"))
                saved_api = seams.bind(api, sim, fake_os=ListingOs(sim, os, ch), require=("os",))
                try:
                    sim.spawn("parent", parent)
                    end = None
                    try:
                        sim.run()
                    except (Deadlock, StepCap) as e:
                        end = str(e)
                    sim.kill_all()
                finally:
                    seams.unbind(api, saved_api)
                    seams.unbind(P, saved)
                for k, v in mp.fired.items():
                    faults[k] = faults.get(k, 0) + v
                if any(p._exitcode == 9 for p in mp.processes):
                    faults["retire"] = faults.get("retire", 0) + 1
                sims.append(sim)
                if end is not None:
                    return self._result(ch, vendor, hosts, sims, faults, probes,
                                        V("pool-did-not-terminate", "liveness", front=front, why=end))
                if "exc" in outcome:
                    return self._result(ch, vendor, hosts, sims, faults, probes,
                                        V("front-end-raised", type(outcome["exc"]).__name__, front=front, exc=repr(outcome["exc"])[:300]))
                results[front] = outcome["res"]
            violation = self._compare(hosts, want, results, run_dir, probes)
            return self._result(ch, vendor, hosts, sims, faults, probes, violation)
        finally:
            shutil.rmtree(run_dir, ignore_errors=True)

    def _compare(self, hosts, want, results, run_dir, probes):
        for front in ("patch", "diff"):
            ok, fail = results[front]
            seen = {}
            for key in list(ok) + list(fail):
                host = os.path.basename(key[0]) if isinstance(key, tuple) else str(key)
                if host in seen:
                    return V("host-delivered-twice", "delivery", front=front, host=host)
                seen[host] = True
            for h in hosts:
                if h["host"] not in seen:
                    return V("host-result-lost", "delivery", front=front, host=h["host"], delivered=sorted(seen))
            if "orphan.cfg" in seen:
                return V("orphan-file-processed", "delivery", front=front)
            for key, items in ok.items():
                host = os.path.basename(key[0])
                w = want[host]
                text = "".join(t for (_label, t, _e) in items) if items else ""
                if w[0] == "EXC":
                    return V("front-ends-disagree", "file-ok-device-raises", front=front, host=host, state=self._state_of(hosts, host),
                             device=w)
                ref = w[1] if front == "patch" else w[2]
                if text != ref:
                    return V("front-ends-disagree", front, front=front, host=host, state=self._state_of(hosts, host),
                             file_mode=text.split("\n"), device_mode=ref.split("\n"),
                             old=[l for l in self._text_of(hosts, host, 0).split("\n")],
                             new=[l for l in self._text_of(hosts, host, 1).split("\n")])
                if text:
                    probes["nonempty_" + front + "_compared"] = probes.get("nonempty_" + front + "_compared", 0) + 1
            for key, exc in fail.items():
                host = os.path.basename(key[0])
                w = want[host]
                if w[0] != "EXC":
                    return V("front-ends-disagree", "file-raises-device-ok", front=front, host=host, state=self._state_of(hosts, host),
                             exc=repr(exc)[:300])
                probes["both_front_ends_raise"] = probes.get("both_front_ends_raise", 0) + 1
        return None

    @staticmethod
    def _state_of(hosts, host):
        return [h["state"] for h in hosts if h["host"] == host][0]

    @staticmethod
    def _text_of(hosts, host, side):
        return [h["texts"][side] for h in hosts if h["host"] == host][0]

    def _result(self, ch, vendor, hosts, sims, faults, probes, violation):
        trace = []
        for sim in sims:
            trace.extend(sim.trace)
        h = hashlib.sha256(repr((vendor, [x["state"] for x in hosts])).encode())
        for ev in trace:
            h.update(("%s|%s;" % (ev[2], ev[3])).encode())
        return {"violation": violation, "nontrivial": probes.get("nonempty_patch_compared", 0) > 0,
                "sig": int.from_bytes(h.digest()[:8], "big"), "sim_s": sum(s.now for s in sims), "steps": sum(s.steps for s in sims),
                "faults": faults, "probes": probes, "strategy": vendor,
                "scenario": {"vendor": vendor, "hw": self._hw_model, "hosts": [(x["host"], x["state"]) for x in hosts]},
                "trace": trace}


def V(clause, key, **detail):
    from .cli import _plain
    return {"clause": clause, "key": key, "detail": _plain(detail)}
