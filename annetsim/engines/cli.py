"""CLI-world engine: whole-system runs of the real `annet deploy` / `annet patch` against
simulated devices (DESIGN.md 5: C01 convergence, C02 ACL confinement, C09 command stream).

One run = one seeded history: a synthetic rulebook, 1..2 devices, generators with ACLs, then a
chain of steps (new desired config, out-of-band edit, deploy with faults) ending with fault-free
deploys; the device is the reference model and every command it executes is checked.
"""
import asyncio
import contextlib
import copy
import hashlib
import io
import re
from collections import OrderedDict as odict

from .. import env, simloop
from ..kernel import HarnessError
from ..worlds import cli as W
from ..worlds import fakes as F

VENDORS = {
    # name: (vendor key in annet registry, model string pattern)
    "huawei-ce": ("huawei", "Huawei CE0000 SIM-%d"),
    "huawei": ("huawei", "Huawei S5700 SIM-%d"),
    "huawei-ne": ("huawei", "Huawei NE40E SIM-%d"),
    "cisco": ("cisco", "Cisco Catalyst SIM-%d"),
    "nexus": ("nexus", "Cisco Nexus SIM-%d"),
    "arista": ("arista", "Arista SIM-%d"),
    "iosxr": ("iosxr", "Cisco ASR SIM-%d"),
    "aruba": ("aruba", "Aruba SIM-%d"),
    "b4com": ("b4com", "B4com SIM-%d"),
    "h3c": ("h3c", "H3C SIM-%d"),
    # (the registry never resolves a model to the optixtrans entry -- "Huawei OptiXtrans ..." matches huawei first --
    #  so its exit-less formatter cannot be reached through a device and is not part of the world)
}


class CliWorld:
    def __init__(self, ch, prop, serial, ndev=None):
        from annet.annlib.netdev.views.hardware import HardwareView
        from annet.vendors import registry_connector
        self.ch, self.prop = ch, prop
        self.faults, self.probes, self.events = {}, {}, []
        names = sorted(VENDORS)
        self.vname = names[ch.draw(len(names), "vendor")]
        vkey, model = VENDORS[self.vname]
        # the world tag is spelled in letters so that no devdb pattern can take it for a model number
        tag = "".join("qzjxwk"[int(c) % 6] + "v" for c in str(serial))
        self.hw = HardwareView(model.replace("%d", tag), None)
        if self.hw.vendor != vkey:
            raise HarnessError("model %r resolved to vendor %r, wanted %r" % (self.hw.model, self.hw.vendor, vkey))
        v = registry_connector.get().match(self.hw)
        self.vendor = v
        feats = ["ordered", "rewrite", "global", "neg", "logic", "tail", "values"] + (["overlap"] if prop == "C01" else [])
        self.allow = set(f for f in feats if ch.draw(4, "feat-" + f) != 0)
        if prop == "C09" and ch.draw(3, "feat-force-commit") == 0:
            self.allow.add("force_commit")
        if prop == "C02":
            self.allow.discard("rewrite")
            if ch.draw(3, "feat-twins") != 0:
                self.allow.add("twins")
        # a formatter without block-exit statements (OptiXtrans uses the common one) leaves nesting to the levels
        from annet.annlib.tabparser import BlockExitFormatter
        exit_word = v.exit if isinstance(v.make_formatter(), BlockExitFormatter) else None
        self.rb = W.gen_rulebook(ch, vkey, v.reverse, exit_word, unique_heads=(prop == "C09"), allow=self.allow)
        self.rb_text = self.rb.text()
        self.fmt = v.make_formatter(indent="  ")
        self.fmt0 = v.make_formatter(indent="")
        self.order_text = self._gen_ordering(ch)
        self.deploy_text = self._gen_deploying(ch) if prop == "C09" else ""
        ndev = ndev if ndev is not None else 1 + (ch.draw(4, "ndev") == 0)
        self.inv = [F.InvDevice(100 + i, self.hw.model) for i in range(ndev)]
        self.dev = {d.id: W.CliDevice(self.rb, self.hw, W.gen_tree(ch, self.rb)) for d in self.inv}
        self.desired = {d.id: odict() for d in self.inv}
        # ownership
        self.full = prop != "C02"      # C01 and C09 are stated without ACL protection: one generator owns everything
        self.owners = self._gen_owners(ch)
        self.gens = [F.make_generator("SimGen%d_%d" % (serial, i), owned, self) for i, owned in enumerate(self.owners)]
        self.fetch_plan, self.deploy_plan = {}, {}
        self.received = {}
        self.cut_happened = set()
        self.per_cmd_violation = None
        self.cmd_hook = None

    # ------------------------------------------------------------------ counters / log
    def fire(self, kind):
        self.faults[kind] = self.faults.get(kind, 0) + 1

    def probe(self, kind):
        self.probes[kind] = self.probes.get(kind, 0) + 1

    def event(self, *a):
        self.events.append((len(self.events), round(simloop._installed.clock.now, 3), "world") + a)

    # ------------------------------------------------------------------ generation helpers
    def _gen_ordering(self, ch):
        if ch.draw(3, "ordering") == 0:
            return ""
        heads = [r.pattern(self.rb.rev) for r in self.rb.rules if not r.neg]
        heads = ch.shuffle(heads, "ord-shuffle")[:1 + ch.draw(len(heads), "ord-n")] if heads else []
        return "\n".join(heads) + "\n"

    def _gen_deploying(self, ch):
        """deploy rulebook over the patching rulebook's rows: sibling rules have disjoint languages (unique heads)"""
        lines = []
        # (a forced intermediate 'commit' row between commands of two apply logics would make the expected grouping
        #  depend on the collapsed-commit finding; the two features are exercised in separate worlds)
        self.alt_apply = ch.draw(3, "dep-alt-world") == 0 and "force_commit" not in self.allow

        hoisted = []

        def emit(rules, ind, nested_ok):
            for r in rules:
                if ch.draw(3, "dep-rule") == 0:
                    if ind == 0 and r.block and not r.rewrite and r.children and not getattr(self, "_shared_child", False) \
                            and ch.draw(2, "dep-hoist") == 0:
                        # no rule for the block header: rules for commands INSIDE the block are written at the top level,
                        # the way huawei.deploy lists 'undo peer *' for commands that live inside 'bgp'
                        hoisted.append(r)
                    continue
                for form in ("direct", "removal"):
                    if ch.draw(2, "dep-form") == 0:
                        continue
                    pat = r.pattern(self.rb.rev)
                    if form == "removal":
                        pat = pat[len(self.rb.rev) + 1:] if r.neg else self.rb.rev + " " + pat
                        pat = pat.replace(" ~", "").rstrip()
                        if r.tail:
                            pat += " ~"
                    timeout = ch.pick([None, 45, 90, 200], "dep-timeout")
                    # (a second apply logic only for genuinely top-level commands, never for hoisted rules of nested ones)
                    alt = ind == 0 and nested_ok and not r.block and self.alt_apply and ch.draw(3, "dep-alt") == 0
                    line = "    " * ind + pat + ("" if timeout is None else " %%timeout=%d" % timeout) + \
                        (" %apply_logic=simlogic.apply_alt" if alt else "")
                    dialogs = []
                    for q in range(ch.draw(3, "dep-ndialog")):
                        qtext = ["Continue? [Y/N]:", "Are you sure?", "/Really (do|undo) it\\?/"][q]
                        dialogs.append((qtext, "Y" if q != 1 else "yes"))
                    lines.append(line)
                    for qtext, ans in dialogs:
                        lines.append("    " * (ind + 1) + "dialog: %s ::: %s" % (qtext, ans))
                    spec = {"pat": pat, "timeout": timeout if timeout is not None else 30, "dialogs": dialogs, "children": [],
                            "apply": "alt" if alt else "default"}
                    yield form, r, spec
                    if form == "direct" and r.block and not r.rewrite and nested_ok:
                        spec["children"] = list(emit(r.children, ind + 1, True))
        self.deploy_specs = list(emit(self.rb.rules, 0, True))
        seen_lits = set()
        for blk in hoisted:
            # (a command that exists inside several blocks gets one top-level rule, not two with the same text)
            kids_ = [c for c in blk.children if not c.block and c.lit not in seen_lits]
            seen_lits.update(c.lit for c in kids_)
            self.deploy_specs.extend(emit(kids_, 0, False))
        # a rule for a wrapper word, to see fill_cmd_params at work
        self.wrapper_rule = None
        t = W.session_table(self.hw)
        cands = [w for w in [t["commit"], t["save"]] if w]
        if cands and ch.draw(2, "dep-wrapper") == 1:
            w = cands[ch.draw(len(cands), "dep-wrapper-word")]
            lines.append("%s %%timeout=77" % w)
            self.wrapper_rule = (w, 77)
        return "\n".join(lines) + "\n"

    def _gen_owners(self, ch):
        rev = self.rb.rev
        if self.full:
            # C01 is stated without ACL protection: every line is deletable
            owned = [F.Owned(r, 0, "ALL" if r.block else []) for r in self.rb.rules] + [F.Owned(g, 0) for g in self.rb.globals]
            return [owned]
        ngens = 1 + ch.draw(3, "ngens")
        owners = [[] for _ in range(ngens)]

        def split(rules, depth):
            """returns per-generator Owned lists for this level"""
            per = [[] for _ in range(ngens)]
            for r in rules:
                if r.twin is not None and r.neg:
                    continue                                     # covered through its positive twin's ACL line (reverse form)
                if ch.draw(5, "own") < 2:
                    continue                                     # unmanaged rule family
                g = ch.draw(ngens, "owner")
                cd = ch.pick([None, None, None, 0, 1], "cant_delete")
                if r.block and not r.rewrite and r.children and ch.draw(3, "own-sub") != 0:
                    sub = split(r.children, depth + 1)
                    holders = [i for i in range(ngens) if sub[i]]
                    if not holders:
                        per[g].append(F.Owned(r, cd, []))
                        continue
                    # two generators may list the same block for overlapping, non-nested sets of keys
                    partial_keys = len(holders) > 1 and r.nkeys == 1 and ch.draw(2, "own-keyre") == 1
                    if partial_keys:
                        holders = holders[:2]
                        self.probe("block_listed_for_overlapping_key_sets")
                    for n, i in enumerate(holders):
                        # several generators may list the same block: all but one must not be able to delete it
                        flag = cd if n == 0 else 1
                        if len(holders) > 1 and n == 0 and flag == 0:
                            flag = None
                        kre = None if not partial_keys else ("k\\d+" if n == 0 else "\\S*1")
                        per[i].append(F.Owned(r, flag, sub[i], key_re=kre))
                    if len(holders) > 1:
                        self.probe("block_shared_by_generators")
                elif r.block:
                    per[g].append(F.Owned(r, cd, "ALL"))
                else:
                    per[g].append(F.Owned(r, cd, []))
            return per
        per = split(self.rb.rules, 0)
        # %global rule families stay unmanaged at the levels no generator owns entirely: a second generator
        # listing them with %global would overlap with another generator's '~ %global' (ACL exclusivity)
        return [p for p in per if p] or [[F.Owned(self.rb.rules[0], None, "ALL" if self.rb.rules[0].block else [])]]

    # ------------------------------------------------------------------ what the fakes call
    def show_config(self, inv):
        return self.fmt.join(self.dev[inv.id].running)

    def fetch_files(self, inv, paths):
        return {}

    async def play(self, inv, cmds, args):
        device = self.dev[inv.id]
        plan = self.deploy_plan.get(inv.id, {})
        cl = list(cmds)
        self.received[inv.id] = [(getattr(c, "level", 0), c.cmd, c.timeout,
                                  [(q.question, q.answer, bool(q.is_regexp)) for q in (c.questions or [])]) for c in cl]
        cut = plan.get("cut")
        if cut is not None:
            cut = cut % (len(cl) + 1)
        for k, c in enumerate(cl):
            if cut is not None and k == cut:
                self.fire("deploy_cut")
                self.cut_happened.add(inv.id)
                self.event("cut", inv.hostname, k, len(cl))
                if k > 0 and getattr(cl[k - 1], "level", 0) > 0:
                    self.probe("cut_inside_block")
                if c.cmd in (device.session["commit"],):
                    self.probe("cut_just_before_commit")
                device.drop_session()
                raise F.DeployCut("connection to %s lost before command %d" % (inv.hostname, k))
            lat = plan["latency"](k, c) if plan.get("latency") else 0.01
            if c.timeout is not None and lat > c.timeout:
                await asyncio.sleep(c.timeout)
                device.drop_session()
                self.event("timeout", inv.hostname, k, c.cmd)
                raise F.CommandTimeout("%s: %r took longer than %ss" % (inv.hostname, c.cmd, c.timeout))
            if lat > 5:
                self.fire("cmd_slow")
            await asyncio.sleep(lat)
            q = plan["question"](k, c) if plan.get("question") else None
            if q is not None:
                self.fire("cmd_prompt")
                ans = None
                for (qt, a, is_re) in [(x.question, x.answer, x.is_regexp) for x in (c.questions or [])]:
                    if (is_re and re.match(qt, q, re.I)) or (not is_re and re.sub(r"\s", "", qt).lower() in re.sub(r"\s", "", q).lower()):
                        ans = a
                        break
                if ans is None:
                    device.drop_session()
                    self.event("no-answer", inv.hostname, k, c.cmd, q)
                    raise F.NoAnswer("%s: no answer for %r asked by %r" % (inv.hostname, q, c.cmd))
            a = device.exec(getattr(c, "level", 0), c.cmd)
            self.event("cmd", inv.hostname, k, getattr(c, "level", 0), c.cmd, a[1] if a else "ok")
            if self.cmd_hook is not None:
                self.cmd_hook(inv, device, k, c)
        if device.in_config:
            device.drop_session()
        return "ok"


class AnnetCrashed(Exception):
    """annet raised instead of producing a patch for a valid world state"""

    def __init__(self, exc):
        import traceback
        super().__init__(repr(exc))
        self.exc = exc
        tb = traceback.extract_tb(exc.__traceback__)
        frames = [f for f in tb if "/annet/" in f.filename]
        self.where = "%s:%s" % (frames[-1].filename.split("/annet/")[-1], frames[-1].name) if frames else "?"


def parse_shown_patch(text):
    """[(depth,row)] from the text `annet patch` prints: depth by indentation steps"""
    out = []
    stack = []
    for line in text.split("\n"):
        if not line.strip():
            continue
        ind = len(line) - len(line.lstrip(" "))
        while stack and stack[-1] >= ind:
            stack.pop()
        out.append((len(stack), line.strip()))
        stack.append(ind)
    return out


class Engine:
    name = "cli"
    spec = "cli"
    runs = {"quick": 8000, "thorough": 2000000}
    wall = {"quick": 300, "thorough": 1200}
    selftest_n = {"quick": 24, "thorough": 96}
    chunk = 50
    isolate = True      # every run in a child forked from the pristine engine process (annet keeps process-global caches)
    minimise_budget = {"quick": 600, "thorough": 3000}
    components_real = ["annet.api.adeploy / Deployer / CliDeployerJob / check_diff", "annet.gen.old_new and the generator "
                       "framework (PartialGenerator, ACL compile, apply_acl)", "annet.api._diff_and_patch (make_diff, make_pre, "
                       "make_patch, Orderer)", "vendor formatters (join on the device side, split/parse_to_tree and cmd_paths "
                       "on annet's side)", "annet.deploy.apply_deploy_rulebook / common.apply", "compile_patching_text / "
                       "compile_ordering_text / compile_deploying_text on seeded synthetic rulebook texts", "asyncio task machinery"]
    components_stub = ["inventory (SimLoader/InvDevice)", "Fetcher and DeployDriver transports (the repo ships only stubs)",
                       "the devices (CliDevice reference model with an independent rule matcher)", "event loop (virtual time)",
                       "rulebook provider (serves the synthetic texts for synthetic hardware models)"]
    assumptions = ["synthetic rulebooks: sibling rules have pairwise distinct head words, at most one %ordered rule per block, "
                   "block rows are fully determined by their key, %rewrite only as the shipped '~ %rewrite %global' body rule",
                   "the device holds one line per (rule, key), follows its own nesting via the vendor's exit word and has the "
                   "vendor session semantics of worlds/cli.py:session_table", "Junos-style flattening vendors are not covered"]

    def __init__(self, tier="quick"):
        self.tier = tier
        self.prop = "C01"
        self.property_id = "C01"
        self.args = {}
        self.serial = 0

    def configure(self, arg):
        self.prop = arg
        self.property_id = arg
        self.args = {"property": arg}

    @property
    def rule(self):
        return RULES[self.prop]

    def setup(self):
        self.provider = env.init()
        F.install()
        simloop.install()
        import annet.api as api
        from annet import cli_args, filtering
        self.api, self.cli_args = api, cli_args
        self.filterer = filtering.filterer_connector.get()
        from .. import runner
        self.known_open = set((k["clause"], k["key"]) for k in runner.load_known()
                              if k.get("status") == "open" and k["property"] == self.prop)
        self.deferred = []

    def _known(self, v):
        """a violation listed as an open known finding does not end the run (a different violation later in the
        history must still surface); it is reported at the end if nothing else was found"""
        if (v["clause"], v["key"]) in self.known_open:
            self.deferred.append(v)
            return True
        return False

    @contextlib.contextmanager
    def _captured(self):
        """annet prints reports to sys.stdout and wants a fileno(): give it a real scratch file"""
        import tempfile
        if getattr(self, "_capfile", None) is None:
            self._capfile = tempfile.TemporaryFile("w+")
        f = self._capfile
        f.seek(0)
        f.truncate()
        with contextlib.redirect_stdout(f), contextlib.redirect_stderr(f):
            yield f

    @staticmethod
    def _read(f):
        f.flush()
        f.seek(0)
        return f.read()

    # ------------------------------------------------------------------ annet front ends
    def _opts(self, cls, **kw):
        base = dict(query=F.SimQuery(), config="running", parallel=1, tolerate_fails=True, indent="  ")
        base.update(kw)
        return cls(**base)

    def deploy(self, world, dont_commit=False, no_check_diff=True, filter_acl=None):
        args = self._opts(self.cli_args.DeployOptions, no_ask_deploy=True, no_check_diff=no_check_diff, no_progress=True,
                          dont_commit=dont_commit, filter_acl=filter_acl or "")
        loader = F.SimLoader(world.inv, lambda d: (world.gens, []))
        deployer = self.api.Deployer(args)
        world.received = {}
        world.cut_happened = set()
        with self._captured() as buf:
            try:
                rc = simloop.run(self.api.adeploy(args, loader, deployer, self.filterer, F.SimFetcher(), F.SimDeployDriver()))
            except HarnessError:
                raise
            except Exception as e:  # pylint: disable=broad-except
                raise AnnetCrashed(e)
        return rc, deployer, self._read(buf)

    def show_patch(self, world):
        import annet.gen as ann_gen
        args = self._opts(self.cli_args.ShowPatchOptions)
        loader = F.SimLoader(world.inv, lambda d: (world.gens, []))
        ann_gen.live_configs = None
        with self._captured():
            ok, fail = self.api.patch(args, loader)
        return ok, fail

    # ------------------------------------------------------------------ one run
    def run(self, ch):
        F.WORLD = None
        self.serial += 1
        world = CliWorld(ch, self.prop, ch.draw(1000000, "serial"))
        F.WORLD = world
        from annet.annlib.rbparser.ordering import compile_ordering_text
        from annet.rulebook.deploying import compile_deploying_text
        from annet.rulebook.patching import compile_patching_text
        vkey = VENDORS[world.vname][0]
        try:
            rbc = {"patching": compile_patching_text(world.rb_text, vkey),
                   "ordering": compile_ordering_text(world.order_text, vkey),
                   "deploying": compile_deploying_text(world.deploy_text, vkey)}
        except Exception as e:
            raise HarnessError("synthetic rulebook does not compile: %r\n%s" % (e, world.rb_text))
        self.provider.register(world.hw, rbc)
        simloop._installed.clock.now = 0.0
        violation = None
        steps_log = []
        self.deferred = []
        try:
            try:
                if self.prop == "C01":
                    violation = self._run_c01(ch, world, steps_log)
                elif self.prop == "C02":
                    violation = self._run_c02(ch, world, steps_log)
                else:
                    violation = self._run_c09(ch, world, steps_log)
            except AnnetCrashed as e:
                violation = V("annet-raised", "%s:%s" % (type(e.exc).__name__, e.where), exception=repr(e.exc)[:400],
                              desired={str(k): v for k, v in world.desired.items()},
                              devices={str(k): v.running for k, v in world.dev.items()})
            if violation is None and self.deferred:
                violation = self.deferred[0]
        finally:
            self.provider.unregister(world.hw)
            for f in (compile_patching_text, compile_ordering_text, compile_deploying_text):
                f.cache_clear()
            F.WORLD = None
        h = hashlib.sha256(repr((world.vname, steps_log, [e[3:] for e in world.events if e[3] in ("cut", "timeout", "no-answer")])).encode())
        for d in world.dev.values():
            h.update(repr(W.norm(d.running, world.rb)).encode())
        nontrivial = any(s.get("commands", 0) > 0 for s in steps_log)
        scenario = {"property": self.prop, "vendor": world.vname, "hw": world.hw.model, "rulebook": world.rb_text.split("\n"),
                    "ordering": world.order_text.split("\n"), "deploying": world.deploy_text.split("\n"),
                    "features": sorted(world.allow), "devices": len(world.inv), "full_ownership": world.full,
                    "acl": [F.acl_text(o, world.rb.rev) for o in world.owners], "filter_acl": getattr(world, "filter_text", None),
                    "steps": steps_log}
        return {"violation": violation, "nontrivial": nontrivial, "sig": int.from_bytes(h.digest()[:8], "big"),
                "sim_s": simloop._installed.clock.now, "steps": len(world.events), "faults": world.faults, "probes": world.probes,
                "strategy": world.vname, "scenario": scenario, "trace": world.events}

    # ------------------------------------------------------------------ fault plans
    def _draw_faults(self, ch, world, allow_faults):
        world.fetch_plan, world.deploy_plan = {}, {}
        for d in world.inv:
            if not allow_faults:
                continue
            f = ch.draw(10, "fetch-fault")
            if f == 0:
                world.fetch_plan[d.id] = {"fail": "exc"}
            elif f == 1:
                world.fetch_plan[d.id] = {"fail": "missing"}
            elif f == 2:
                world.fetch_plan[d.id] = {"stall": ch.pick([3.0, 60.0, 1200.0], "stall")}
            if ch.draw(3, "cut") == 0:
                world.deploy_plan[d.id] = {"cut": ch.draw(64, "cut-at")}

    # ------------------------------------------------------------------ C01
    def _run_c01(self, ch, world, steps_log):
        rb = world.rb
        nsteps = 2 + ch.draw(4, "nsteps")
        for step in range(nsteps):
            last = step == nsteps - 1
            for d in world.inv:
                prev = world.desired[d.id]
                mode = ch.draw(4, "desired-mode")
                if mode == 0 or not prev:
                    world.desired[d.id] = W.gen_tree(ch, rb)
                elif mode == 1:
                    world.desired[d.id] = W.mutate_tree(ch, rb, world.dev[d.id].running)
                else:
                    world.desired[d.id] = W.mutate_tree(ch, rb, prev)
                if ch.draw(4, "oob") == 0:
                    world.fire("oob_edit")
                    dev = world.dev[d.id]
                    dev.running = W.mutate_tree(ch, rb, dev.running)
            self._draw_faults(ch, world, allow_faults=not last and ch.draw(2, "faulty-step") == 1)
            check_diff = ch.draw(2, "check-diff") == 1
            pre = {d.id: copy.deepcopy(world.dev[d.id].running) for d in world.inv}
            for dv in world.dev.values():
                dv.anomalies, dv.removals = [], []
            rc, deployer, out = self.deploy(world, no_check_diff=not check_diff)
            entry = {"step": step, "rc": rc, "commands": sum(len(v) for v in world.received.values()),
                     "fetch_faults": {k: v.get("fail") or "stall" for k, v in world.fetch_plan.items()},
                     "cuts": {k: v.get("cut") for k, v in world.deploy_plan.items()}, "check_diff": check_diff}
            steps_log.append(entry)
            skip_second = False
            for d in world.inv:
                dev = world.dev[d.id]
                fplan = world.fetch_plan.get(d.id, {})
                cut = world.deploy_plan.get(d.id, {}).get("cut")
                was_cut = d.id in world.cut_happened
                if fplan.get("fail"):
                    if d.id in world.received:
                        return V("commands-sent-after-failed-fetch", "fetch-fail", step=step, device=d.hostname)
                    if W.norm(dev.running, rb) != W.norm(pre[d.id], rb):
                        return V("device-changed-after-failed-fetch", "fetch-fail", step=step, device=d.hostname)
                    if d.fqdn not in deployer.failed_configs:
                        return V("failed-fetch-not-reported", "fetch-fail", step=step, device=d.hostname)
                    world.probe("fetch_failed_device_untouched")
                    continue
                if was_cut:
                    if dev.session["two_stage"] and dev.commits == 0 and W.norm(dev.running, rb) != W.norm(pre[d.id], rb):
                        return V("uncommitted-change-visible", "two-stage-cut", step=step, device=d.hostname)
                    if rc & 1 == 0:
                        return V("cut-deploy-reported-as-success", "cut-rc", step=step, rc=rc)
                    world.probe("deploy_cut_survived")
                    dev.commits = 0
                    continue
                dev.commits = 0
                if dev.anomalies:
                    a = dev.anomalies[0]
                    return V("device-rejected-command", a[1], step=step, device=d.hostname, command=a[3], level=a[2],
                             info=a[4], old=pre[d.id], new=world.desired[d.id], commands=world.received.get(d.id))
                want = W.expected_after(pre[d.id], world.desired[d.id], rb) if world.full else None
                if want is not None and W.norm(dev.running, rb) != W.norm(want, rb):
                    v = V("not-converged", self._diverge_key(world, pre[d.id], world.desired[d.id], dev.running, want),
                          step=step, device=d.hostname, old=pre[d.id], new=world.desired[d.id], got=dev.running, want=want,
                          commands=world.received.get(d.id))
                    if not self._known(v):
                        return v
                    skip_second = True
                    continue
                if check_diff and W.convergent(rb) and world.full and d.fqdn in deployer.failed_configs:
                    return V("post-deploy-diff-not-empty", "check-diff", step=step, device=d.hostname,
                             reported=repr(deployer.failed_configs[d.fqdn]), output=out[-600:])
            if any(world.fetch_plan.get(d.id, {}).get("fail") for d in world.inv) or world.cut_happened or skip_second:
                continue
            # a second deploy right after an un-cut one must send nothing
            self._draw_faults(ch, world, False)
            state = {d.id: W.norm(world.dev[d.id].running, rb) for d in world.inv}
            rc2, deployer2, out2 = self.deploy(world, no_check_diff=True)
            entry["second_commands"] = sum(len(v) for v in world.received.values())
            if world.received and W.convergent(rb):
                did = sorted(world.received)[0]
                return V("second-patch-not-empty", "second-patch", step=step, device=did, commands=world.received[did],
                         desired=world.desired[did], device_config=world.dev[did].running)
            # (with permanent / ignore_changes lines the diff never empties by design; the patch may then re-enter a
            #  permanent block, but it must be a no-op on the device, which the state comparison below checks)
            if W.convergent(rb) and world.full and deployer2.diffs:
                return V("second-diff-not-empty", "second-diff", step=step)
            if any(W.norm(world.dev[d.id].running, rb) != state[d.id] for d in world.inv):
                return V("device-changed-by-empty-deploy", "second-patch", step=step)
            world.probe("second_deploy_empty")
        return None

    def _diverge_key(self, world, old, new, got, want):
        """narrow signature for the known finding: the ONLY difference is the relative order of the rows of an
        %ordered rule, in a block where a row of that rule changed its value under an unchanged key"""
        rb = world.rb

        def unordered(tree):
            return tuple(sorted((row, unordered(sub)) for row, sub in tree.items()))
        if unordered(got) != unordered(want):
            return "diverged"

        def value_change(o, n, rules):
            for row, sub in n.items():
                m = W.match_direct(rules, rb.globals, row, rb.rev)
                if m is None:
                    continue
                r, key = m
                if r.ordered and row not in o and W.find_line(o, rules, rb.globals, r, key, rb.rev) is not None:
                    return True
                if r.block and not r.rewrite and row in o and value_change(o[row], sub, W.kids(rules, row, r, rb.rev)):
                    return True
            return False
        return "ordered-rule-value-change" if value_change(old, new, rb.rules) else "diverged"

    # ------------------------------------------------------------------ C02
    def _holders(self, world, path):
        """independent ACL walk over the ownership tables: returns (covered, holders of the last row, rule, all_mode)
        covered is False as soon as one level of the path is owned by no generator"""
        rb = world.rb
        level_owned = [o for o in world.owners]
        rules = rb.rules
        all_mode = False
        holders, rule = [], None
        for i, row in enumerate(path):
            if all_mode:
                holders, rule = ["ALL"], None
                continue
            holders, rule = [], None
            for m in (W.match_direct(rules, rb.globals, row, rb.rev), W.match_removal(rules, rb.globals, row, rb.rev)):
                # an ACL line covers a row directly or as the reverse form of a covered row
                if m is None:
                    continue
                rule = m[0]
                holders = [o for owned in level_owned for o in owned if o.rule is rule and o.covers(row, rb.rev)]
                if holders:
                    break
            if rule is None:
                return False, [], None, False
            if not holders:
                return False, [], rule, False
            if any(o.children == "ALL" for o in holders):
                all_mode = True
            level_owned = [o.children for o in holders if o.children != "ALL"]
            rules = rule.children
        return True, holders, rule, all_mode

    def _unmanaged_view(self, world, tree, level_owned=None, rules=None):
        rb = world.rb
        level_owned = world.owners if level_owned is None else level_owned
        rules = rb.rules if rules is None else rules
        out = odict()
        for row, sub in tree.items():
            m = W.match_direct(rules, rb.globals, row, rb.rev)
            r = m[0] if m else None
            holders = [o for owned in level_owned for o in owned if o.rule is r and o.covers(row, rb.rev)] if r is not None else []
            if not holders and r is not None and r.twin is not None:
                holders = [o for owned in level_owned for o in owned if o.rule is r.twin]     # reverse form of an owned line
            if not holders:
                out[row] = ("U", copy.deepcopy(sub))
            elif any(o.children == "ALL" for o in holders):
                continue
            elif r.block:
                inner = self._unmanaged_view(world, sub, [o.children for o in holders], r.children)
                if inner:
                    out[row] = ("M", inner)
        return out

    def _check_unmanaged(self, world, view, tree, removed_paths, path=(), rules=None):
        """every unmanaged line of `view` is still in `tree`, unless an owned ancestor block was removed by a command"""
        rb = world.rb
        rules = rb.rules if rules is None else rules
        for row, (kind, body) in view.items():
            p = path + (row,)
            if kind == "U":
                if row not in tree:
                    return ("unmanaged-line-touched", p, "missing or rewritten")
                if body != tree[row]:
                    return ("unmanaged-line-touched", p, "subtree changed")
            else:
                if p in removed_paths:
                    continue              # an owned, deletable block was removed by a command (and maybe re-created):
                                          # judged at the removal event, its former unmanaged content is gone legitimately
                cur = row
                m = W.match_direct(rules, rb.globals, row, rb.rev)
                if row not in tree and m is not None:
                    # an owned block whose header was given again with another value is still the same block
                    cur = W.find_line(tree, rules, rb.globals, m[0], m[1], rb.rev)
                if cur is None or cur not in tree:
                    return ("unmanaged-line-touched", p, "owning block vanished without a removal command")
                sub_rules = W.kids(rules, row, m[0], rb.rev) if m is not None else []
                res = self._check_unmanaged(world, body, tree[cur], removed_paths, p, sub_rules)
                if res:
                    return res
        return None

    def _filter_file(self, ch, world):
        """an operator's --filter-acl: plain rules (no flags) selecting some top-level rule families with everything below"""
        import tempfile
        if ch.draw(3, "use-filter") != 0:
            return None
        lines = []
        for r in world.rb.rules:
            if ch.draw(3, "filter-rule") != 0:
                lines.append(r.pattern(world.rb.rev))
                if r.block:
                    lines.append("    ~ %global")
        if not lines:
            lines = ["~ %global"]
        f = tempfile.NamedTemporaryFile("w", prefix="annetsim-filter-", suffix=".acl", delete=False)
        f.write("\n".join(lines) + "\n")
        f.close()
        world.probe("filter_acl_in_use")
        world.filter_text = lines
        return f.name

    def _run_c02(self, ch, world, steps_log):
        import os as _os
        path = self._filter_file(ch, world)
        try:
            return self._run_c02_inner(ch, world, steps_log, path)
        finally:
            if path:
                try:
                    _os.unlink(path)
                except OSError:
                    pass

    def _run_c02_inner(self, ch, world, steps_log, filter_path):
        rb = world.rb
        nsteps = 2 + ch.draw(3, "nsteps")
        found = []
        state = {}

        def hook(inv, device, k, c):
            if found:
                return
            st = state[inv.id]
            level, row = getattr(c, "level", 0), c.cmd
            body_lo, body_hi = 1, st["n"] - st["after"]
            if body_lo <= k < body_hi:
                st["stack"] = st["stack"][:level] + [row]
                path = tuple(st["stack"])
                if not (rb.exit and row == rb.exit and level > 0):
                    cov, holders, rule, all_mode = self._holders(world, path)
                    if not cov:
                        found.append(V("command-outside-acl", "uncovered-command", device=inv.hostname, command_index=k,
                                       path=list(path), commands=world.received.get(inv.id)))
                        return
                    world.probe("command_checked_against_acl")
            tree = device._cfg() if device.in_config and device.session["two_stage"] and device.candidate is not None else device.running
            # removal events logged by the device since the last command
            for (idx, rpath, uid, subtree) in device.removals[st["seen_removals"]:]:
                cov, holders, rule, all_mode = self._holders(world, rpath)
                if not cov:
                    found.append(V("unmanaged-line-removed", "unmanaged-removed", device=inv.hostname, command_index=k, command=row,
                                   line=list(rpath), commands=world.received.get(inv.id)))
                    return
                removed_rule = next((x for x in rb.all if x.uid == uid), None)
                reverse_form = removed_rule is not None and removed_rule.neg and removed_rule.twin is not None and \
                    rule is removed_rule.twin
                # (replacing the reverse form 'undo x' by the protected direct form 'x' is not a deletion of 'x')
                if not all_mode and not reverse_form and holders and all(o.eff_cant_delete(rb.rev) for o in holders):
                    # narrow signature of the known finding: the line belongs to an %ordered rule and is still wanted
                    # (it is being MOVED: deleted and re-created); a true deletion of a cant_delete line is keyed apart
                    node = world.desired[inv.id]
                    for seg in rpath:
                        node = node.get(seg) if isinstance(node, dict) else None
                        if node is None:
                            break
                    key = "ordered-row-moved" if (rule is not None and rule.ordered and node is not None) else "cant-delete-removed"
                    found.append(V("cant-delete-line-removed", key, device=inv.hostname, command_index=k, command=row,
                                   line=list(rpath), lost_children=subtree, commands=world.received.get(inv.id)))
                    return
                st["removed_paths"].add(tuple(rpath))
                world.probe("removal_of_owned_deletable_line")
            st["seen_removals"] = len(device.removals)
            res = self._check_unmanaged(world, st["view"], tree, st["removed_paths"])
            if res:
                found.append(V(res[0], "unmanaged-touched", device=inv.hostname, command_index=k, command=row, line=list(res[1]),
                               why=res[2], commands=world.received.get(inv.id)))

        for step in range(nsteps):
            last = step == nsteps - 1
            for d in world.inv:
                prev = world.desired[d.id]
                mode = ch.draw(4, "desired-mode")
                if mode == 0 or not prev:
                    world.desired[d.id] = W.gen_tree(ch, rb)
                elif mode == 1:
                    world.desired[d.id] = W.mutate_tree(ch, rb, world.dev[d.id].running)
                else:
                    world.desired[d.id] = W.mutate_tree(ch, rb, prev)
                if ch.draw(3, "oob") == 0:
                    world.fire("oob_edit")
                    world.dev[d.id].running = W.mutate_tree(ch, rb, world.dev[d.id].running)
            self._draw_faults(ch, world, allow_faults=not last and ch.draw(2, "faulty-step") == 1)
            pre = {d.id: copy.deepcopy(world.dev[d.id].running) for d in world.inv}
            for d in world.inv:
                dv = world.dev[d.id]
                dv.anomalies, dv.removals = [], []
                view = self._unmanaged_view(world, dv.running)
                if view:
                    world.probe("device_has_unmanaged_lines")
                state[d.id] = {"view": view, "stack": [], "seen_removals": 0, "removed_paths": set(), "n": 0, "after": 0}
            after_len = len(W.expected_wrapper(world.hw, True, True)[1])

            def hook_with_len(inv, device, k, c, _after=after_len):
                st = state[inv.id]
                st["n"] = len(world.received.get(inv.id, ()))
                st["after"] = _after
                hook(inv, device, k, c)
            world.cmd_hook = hook_with_len
            captured = {}
            real_dp = self.api._diff_and_patch

            def spy(device, old, new, acl_rules, filter_acl_rules, *a, **kw):
                captured[device.id] = (device, acl_rules, filter_acl_rules, kw.get("rb"))
                return real_dp(device, old, new, acl_rules, filter_acl_rules, *a, **kw)
            self.api._diff_and_patch = spy
            try:
                rc, deployer, out = self.deploy(world, no_check_diff=True, filter_acl=filter_path)
            finally:
                self.api._diff_and_patch = real_dp
            world.cmd_hook = None
            steps_log.append({"step": step, "rc": rc, "commands": sum(len(v) for v in world.received.values()),
                              "fetch_faults": {k: v.get("fail") or "stall" for k, v in world.fetch_plan.items()},
                              "cuts": {k: v.get("cut") for k, v in world.deploy_plan.items()}})
            if found:
                v = found[0]
                v["detail"]["step"] = step
                v["detail"]["device_before"] = _plain(pre.get(int(v["detail"]["device"][3:]), {}))
                v["detail"]["desired"] = _plain(world.desired.get(int(v["detail"]["device"][3:]), {}))
                return v
            for d in world.inv:
                dv = world.dev[d.id]
                if world.fetch_plan.get(d.id, {}).get("fail"):
                    if W.norm(dv.running, rb) != W.norm(pre[d.id], rb):
                        return V("device-changed-after-failed-fetch", "fetch-fail", step=step, device=d.hostname)
                    continue
                # after the session: the running config must still hold every unmanaged line
                res = self._check_unmanaged(world, state[d.id]["view"], dv.running, state[d.id]["removed_paths"])
                if res:
                    return V(res[0], "unmanaged-touched-final", step=step, device=d.hostname, line=list(res[1]), why=res[2],
                             commands=world.received.get(d.id), device_before=pre[d.id], desired=world.desired[d.id])
                bad = [a for a in dv.anomalies if a[1] in ("nesting-mismatch", "command-outside-config-mode")]
                if bad:
                    return V("device-rejected-command", bad[0][1], step=step, device=d.hostname, command=bad[0][3])
            # (a) for arbitrary old and new: diff_and_patch itself, given the device's whole configuration and a desired
            # configuration that has lines outside the ACL (nothing narrowed beforehand), with the ACL annet compiled
            for d in world.inv:
                if d.id not in captured or ch.draw(2, "direct-dp") == 0:
                    continue
                device, acl_rules, filter_rules, rbk = captured[d.id]
                if acl_rules is None:
                    continue
                from annet import tabparser
                fmt = world.vendor.make_formatter(indent="  ")
                old_full = tabparser.parse_to_tree(text=fmt.join(pre[d.id]), splitter=fmt.split)
                new_full = tabparser.parse_to_tree(text=fmt.join(world.desired[d.id]), splitter=fmt.split)
                try:
                    _diff, pt = self.api._diff_and_patch(device, old_full, new_full, acl_rules, filter_rules, False, rb=rbk)
                except Exception as e:  # pylint: disable=broad-except
                    raise AnnetCrashed(e)
                world.probe("diff_and_patch_given_unnarrowed_configs")
                for path in world.vendor.make_formatter(indent="").cmd_paths(pt):
                    if rb.exit and path[-1] == rb.exit and len(path) > 1:
                        continue
                    cov = self._holders(world, tuple(path))[0]
                    if not cov:
                        return V("command-outside-acl", "unnarrowed-input", step=step, device=d.hostname, path=list(path),
                                 device_before=_plain(pre[d.id]), desired=_plain(world.desired[d.id]))
        return None

    # ------------------------------------------------------------------ C09
    @staticmethod
    def _match_pat(pat, row):
        pw, rw = pat.split(), row.split()
        tail = bool(pw) and pw[-1] == "~"
        if tail:
            pw = pw[:-1]
            if len(rw) < len(pw) + 1:
                return False
        elif len(rw) < len(pw):
            return False
        return all(p == "*" or p == w for p, w in zip(pw, rw))

    def _ref_deploy_rule(self, world, path):
        """reference semantics of deploy-rule selection (as the shipped rulebooks rely on it): descend along the
        path through matching rules; a level that matches nothing is skipped; default when the chain ends early"""
        rules = [spec for (_f, _r, spec) in world.deploy_specs]
        if world.wrapper_rule:
            rules = rules + [{"pat": world.wrapper_rule[0], "timeout": world.wrapper_rule[1], "dialogs": [], "children": []}]
        for depth, row in enumerate(path):
            hit = None
            for spec in rules:
                if self._match_pat(spec["pat"], row):
                    hit = spec
                    break
            if hit is None:
                continue
            if depth == len(path) - 1:
                return hit
            rules = [sp for (_f, _r, sp) in hit["children"]]
            if not rules:
                return None
        return None

    def _run_c09(self, ch, world, steps_log):
        rb = world.rb
        nsteps = 1 + ch.draw(3, "nsteps")
        for step in range(nsteps):
            for d in world.inv:
                prev = world.desired[d.id]
                world.desired[d.id] = W.gen_tree(ch, rb) if not prev or ch.draw(3, "fresh") == 0 else W.mutate_tree(ch, rb, prev)
            dont_commit = ch.draw(3, "dont-commit") == 0
            world.fetch_plan, world.deploy_plan = {}, {}
            # 1. what `annet patch` shows for this world state
            ok, fail = self.show_patch(world)
            if fail:
                k = sorted(fail, key=repr)[0]
                raise AnnetCrashed(fail[k].__cause__ or fail[k]) if not hasattr(fail[k], "orig_exc_cls") else \
                    AnnetCrashed(RuntimeError("annet patch failed: %r" % fail[k]))
            shown = {}
            for dev_id, items in ok.items():
                texts = [t for (label, t, _e) in items if str(label).endswith(".patch")]
                shown[dev_id] = parse_shown_patch(texts[0]) if texts else []
            # 2. device behaviour conforming to the reference deploy rules: latency just below the rule's timeout,
            #    questions taken from the rule's dialogs
            slow = ch.draw(2, "slow-device") == 1
            ask = ch.draw(2, "asking-device") == 1
            stacks = {}

            def plan_for(dev_id):
                def path_of(k, c):
                    st = stacks.setdefault(dev_id, {"stack": [], "k": -1})
                    if st["k"] != k:
                        lvl = getattr(c, "level", 0)
                        st["stack"] = st["stack"][:lvl] + [c.cmd]
                        st["k"] = k
                    return tuple(st["stack"])

                def latency(k, c):
                    spec = self._ref_deploy_rule(world, path_of(k, c))
                    t = spec["timeout"] if spec else 30
                    return float(t) - 1.0 if slow and (k * 7 + len(c.cmd)) % 3 == 0 else 0.01

                def question(k, c):
                    spec = self._ref_deploy_rule(world, path_of(k, c))
                    if not ask or not spec or not spec["dialogs"]:
                        return None
                    qt = spec["dialogs"][(k + len(c.cmd)) % len(spec["dialogs"])][0]
                    return "Really do it?" if qt.startswith("/") else "Warning. " + qt
                return {"latency": latency, "question": question}
            for d in world.inv:
                world.deploy_plan[d.id] = plan_for(d.id)
            pre = {d.id: copy.deepcopy(world.dev[d.id].running) for d in world.inv}
            for dv in world.dev.values():
                dv.anomalies, dv.removals, dv.commits = [], [], 0
            rc, deployer, out = self.deploy(world, dont_commit=dont_commit, no_check_diff=True)
            steps_log.append({"step": step, "rc": rc, "dont_commit": dont_commit, "slow": slow, "asking": ask,
                              "commands": sum(len(v) for v in world.received.values())})
            before, after = W.expected_wrapper(world.hw, not dont_commit, True)
            t = W.session_table(world.hw)
            # cmd_lines shown at the confirmation prompt, split per host
            prompt = {}
            cur = None
            for line in deployer.cmd_lines:
                if line.startswith("= ") and line.endswith(" "):
                    cur = line[2:-1]
                    prompt[cur] = []
                elif cur is not None and line != "":
                    prompt[cur].append(line)
            for d in world.inv:
                got = world.received.get(d.id)
                sh = shown.get(d.id, [])
                if got is None:
                    if sh:
                        return V("shown-patch-not-sent", "nothing-sent", step=step, device=d.hostname, shown=sh)
                    continue
                world.probe("deploy_stream_compared")
                rows = [(lv, cmd) for (lv, cmd, _t, _q) in got]
                # what must have been sent: the body is the patch shown at the confirmation prompt (and, unless a rule
                # asks for an intermediate commit that dont_commit suppresses, the patch `annet patch` prints); consecutive
                # commands whose deploy rule selects the same apply logic share one session wrapper
                has_fc = any(r.logic == "simlogic.dyn_force_commit" for r in rb.all)
                body_ref = sh if not (dont_commit and has_fc) else None
                alt_before = ["alt-begin"]
                alt_after = (["alt-commit"] if not dont_commit else []) + ["alt-end"]
                # recover the body from the stream: everything that is not a wrapper word at level 0 in wrapper position
                if body_ref is None:
                    # committing is disabled: a command that needs an intermediate commit cannot be sent, so it and its
                    # 'commit' row (adjacent, same level in the printed patch) are left out; everything else stays
                    body_ref = []
                    for lv, cmd in sh:
                        if cmd == "commit" and body_ref and body_ref[-1][0] == lv:
                            body_ref.pop()
                            world.probe("forced_commit_row_left_out_under_dont_commit")
                            continue
                        body_ref.append((lv, cmd))
                stack, kinds = [], []
                for lv, cmd in body_ref:
                    stack = stack[:lv] + [cmd]
                    spec = self._ref_deploy_rule(world, tuple(stack))
                    kinds.append(spec.get("apply", "default") if spec else "default")
                expect = []
                i = 0
                while i < len(body_ref):
                    j = i
                    while j < len(body_ref) and kinds[j] == kinds[i]:
                        j += 1
                    b, a = (before, after) if kinds[i] == "default" else (alt_before, alt_after)
                    expect.extend([("w", 0, x) for x in b] + [("b",) + tuple(body_ref[k]) for k in range(i, j)] + [("w", 0, x) for x in a])
                    i = j
                if len(set(kinds)) > 1:
                    world.probe("patch_alternates_between_apply_logics")
                if [(e[1], e[2]) for e in expect] != rows:
                    want_rows = [(e[1], e[2]) for e in expect]
                    missing = list(want_rows)
                    for x in rows:
                        if x in missing:
                            missing.remove(x)
                    skipped, it = [], iter(rows)
                    nxt = next(it, None)
                    for x in want_rows:
                        if nxt is not None and x == nxt:
                            nxt = next(it, None)
                        else:
                            skipped.append(x)
                    if has_fc and nxt is None and skipped and all(x[1] == "commit" for x in skipped) and \
                            len(skipped) + len(rows) == len(want_rows):
                        # several rules asked for an intermediate commit in one patch: the equal 'commit' rows share one path
                        v = V("stream-differs-from-shown-patch", "force-commit-rows-collapsed", step=step, device=d.hostname,
                              shown=sh, sent=rows, expected=want_rows)
                        if not self._known(v):
                            return v
                        continue
                    commit_words = [w for w in (t["commit"], "alt-commit") if w]
                    if dont_commit and any(lv == 0 and cmd in commit_words for lv, cmd in rows):
                        return V("wrapper-mismatch", "commit-under-dont-commit", step=step, device=d.hostname, received=rows, expected=want_rows)
                    if sorted(want_rows) == sorted(rows):
                        return V("stream-differs-from-shown-patch", "order", step=step, device=d.hostname, shown=sh, sent=rows, expected=want_rows)
                    wr = [x for x in rows if x[0] == 0 and x[1] in before + after + alt_before + alt_after]
                    ww = [x for x in want_rows if x[0] == 0 and x[1] in before + after + alt_before + alt_after]
                    if wr != ww:
                        return V("wrapper-mismatch", "wrapper", step=step, device=d.hostname, dont_commit=dont_commit,
                                 want_before=before, want_after=after, received=rows, expected=want_rows)
                    return V("stream-differs-from-shown-patch", "body", step=step, device=d.hostname, shown=sh, sent=rows, expected=want_rows)
                body = [(e[1], e[2]) for e in expect if e[0] == "b"]
                if dont_commit and t["commit"] and any(cmd == t["commit"] and lv == 0 for lv, cmd in body):
                    return V("wrapper-mismatch", "commit-under-dont-commit", step=step, device=d.hostname, received=rows)
                if [cmd for _lv, cmd in body] != prompt.get(d.hostname, []):
                    return V("stream-differs-from-prompt", "cmd-lines", step=step, device=d.hostname,
                             prompt=prompt.get(d.hostname), sent=body)
                is_wrapper = [e[0] == "w" for e in expect]
                # timeouts and dialogs per command
                stack = []
                for n, (lv, cmd, tmo, qs) in enumerate(got):
                    if is_wrapper[n]:
                        path = (cmd,)
                    else:
                        stack = stack[:lv] + [cmd]
                        path = tuple(stack)
                    spec = self._ref_deploy_rule(world, path)
                    want_t = spec["timeout"] if spec else 30
                    want_q = [(q[1:-1] if q.startswith("/") and q.endswith("/") else q, a, q.startswith("/") and q.endswith("/"))
                              for q, a in (spec["dialogs"] if spec else [])]
                    if tmo != want_t:
                        return V("wrong-timeout", "timeout", step=step, device=d.hostname, path=list(path), got=tmo, want=want_t)
                    if [tuple(x) for x in qs] != want_q:
                        return V("wrong-dialogs", "dialogs", step=step, device=d.hostname, path=list(path), got=qs, want=want_q)
                    if spec:
                        world.probe("command_matched_a_deploy_rule")
                res = None
                dv = world.dev[d.id]
                if rc & 1:
                    ev = [e for e in world.events if e[3] in ("timeout", "no-answer") and e[4] == d.hostname]
                    if ev:
                        return V("conforming-device-failed-deploy", ev[-1][3], step=step, device=d.hostname, event=list(ev[-1][3:]))
                if dont_commit and dv.session["two_stage"] and W.norm(dv.running, rb) != W.norm(pre[d.id], rb):
                    return V("uncommitted-change-visible", "dont-commit-two-stage", step=step, device=d.hostname)
                if dont_commit and dv.commits:
                    return V("wrapper-mismatch", "commit-under-dont-commit", step=step, device=d.hostname, received=rows)
                bad = [a for a in dv.anomalies if a[1] in ("nesting-mismatch", "exit-at-top-level")]
                if bad:
                    return V("block-exit-misplaced", bad[0][1], step=step, device=d.hostname, command=bad[0][3], received=rows)
        return self._direct_patchtree_check(ch, world)

    @staticmethod
    def _endifs_as_documented(shown):
        """narrow signature of the known finding: every 'endif' of the shown patch closes an 'else' branch or is the
        last statement of its filter (the only places where the Huawei formatter places one)"""
        for i, (lv, cmd) in enumerate(shown):
            if cmd != "endif":
                continue
            header = None
            for j in range(i - 1, -1, -1):
                if shown[j][0] == lv:
                    header = shown[j][1]
                    break
                if shown[j][0] < lv:
                    break
            nxt = shown[i + 1] if i + 1 < len(shown) else None
            last_in_filter = nxt is not None and nxt[1] == "end-filter"
            if not (header == "else" or last_in_filter):
                return False
        return True

    def _vendor_blocks(self, ch, world, PatchTree):
        out = []

        def plain(prefix, n):
            t = PatchTree()
            for i in range(1 + ch.draw(n, "vb-rows")):
                t.add("%s %d" % (prefix, i), {})
            return t

        def if_chains(cond_prefix):
            """statements of a policy body: plain rows and if / elseif / else chains"""
            t = PatchTree()
            k = 0
            have_else = False       # config trees are dicts: a body cannot hold the row 'else' twice
            for _ in range(1 + ch.draw(3, "vb-stmts")):
                if ch.draw(3, "vb-plain") == 0:
                    k += 1
                    t.add("apply action%d" % k, {})
                    continue
                k += 1
                t.add_block("if %s%d then" % (cond_prefix, k), plain("apply a%d" % k, 2))
                for _e in range(ch.draw(3, "vb-elseif")):
                    k += 1
                    t.add_block("elseif %s%d then" % (cond_prefix, k), plain("apply b%d" % k, 2))
                if not have_else and ch.draw(2, "vb-else") == 1:
                    have_else = True
                    t.add_block("else", plain("apply c%d" % k, 2))
            return t
        if ch.draw(3, "vb-any") == 0:
            return out
        if world.vname.startswith("huawei"):
            for i in range(1 + ch.draw(2, "vb-n")):
                if ch.draw(3, "vb-kind") == 0:
                    out.append(("xpl as-path-list L%d" % i, plain("regular 65000", 3)))
                else:
                    out.append(("xpl route-filter F%d" % i, if_chains("cond")))
        elif world.vname in ("cisco", "nexus", "arista"):
            t = PatchTree()
            for fam in ch.sample(["ipv4 unicast", "ipv6 unicast", "vpnv4"], 1 + ch.draw(2, "vb-af"), "vb-fams"):
                t.add_block("address-family %s" % fam, plain("network 10.0.0", 3))
            out.append(("router bgp 65000", t))
        elif world.vname == "iosxr":
            for i in range(1 + ch.draw(2, "vb-n")):
                kind = ch.draw(3, "vb-kind")
                if kind == 0:
                    out.append(("prefix-set P%d" % i, plain("10.0.0.%d/32," % i, 3)))
                elif kind == 1:
                    out.append(("community-set C%d" % i, plain("65000:%d" % i, 3)))
                else:
                    out.append(("route-policy RP%d" % i, if_chains("destination in P")))
        return out

    def _direct_patchtree_check(self, ch, world):
        """synthetic PatchTrees (distinct sibling rows, depth <= 4) through the same seam functions"""
        from annet.annlib.patching import PatchTree
        from annet import deploy as ann_deploy
        words = ["a1", "b2", "c3", "d4", "e5", "f6"]

        def build(depth):
            t = PatchTree()
            used = set()
            for _ in range(1 + ch.draw(4, "pt-n")):
                row = "%s %s" % (words[ch.draw(len(words), "pt-w")], W.KEYS[ch.draw(len(W.KEYS), "pt-k")])
                if ch.draw(6, "pt-free-text") == 0:
                    # free text as generators write it: quoted, with runs of blanks, case and punctuation to be kept as is
                    row += ch.pick([' "uplink  to  core-1"', "   padded", ' "Mixed Case;  semi"', " a\tb"], "pt-text")
                if row in used:
                    continue
                used.add(row)
                if depth < 4 and ch.draw(3, "pt-block") == 0:
                    t.add_block(row, build(depth + 1))
                else:
                    t.add(row, {})
            return t
        pt = build(1)
        # vendor-specific block exits (Huawei XPL end-filter/end-list/endif, Cisco exit-address-family, IOS-XR end-set /
        # endif / end-policy): blocks whose rows select those exit statements
        special = self._vendor_blocks(ch, world, PatchTree)
        for row, sub in special:
            pt.add_block(row, sub)
        fmt = world.vendor.make_formatter(indent="  ")
        shown = parse_shown_patch(fmt.patch(pt))
        paths = world.vendor.make_formatter(indent="").cmd_paths(pt)
        flat = [(len(p) - 1, p[-1]) for p in paths]
        for dc in (True, False):
            cl = ann_deploy.apply_deploy_rulebook(world.hw, paths, do_finalize=True, do_commit=dc)
            before, after = W.expected_wrapper(world.hw, dc, True)
            rows = [(getattr(c, "level", 0), c.cmd) for c in cl]
            body = rows[len(before):len(rows) - len(after)]
            if not (shown == flat == body):
                key = "direct-patchtree"
                missing = list(shown)
                for x in flat:
                    if x in missing:
                        missing.remove(x)
                if flat == body and missing and all(cmd == "endif" for _lv, cmd in missing) and world.vname.startswith("huawei") \
                        and len(flat) + len(missing) == len(shown) and self._endifs_as_documented(shown):
                    key = "huawei-xpl-endif-collapsed"
                v = V("stream-differs-from-shown-patch", key, shown=shown, cmd_paths=flat, body=body, do_commit=dc,
                      missing_from_stream=missing)
                if not self._known(v):
                    return v
                break
            if rows[:len(before)] != [(0, x) for x in before] or rows[len(rows) - len(after):] != [(0, x) for x in after]:
                return V("wrapper-mismatch", "direct-patchtree", received=rows, want_before=before, want_after=after, do_commit=dc)
        if special:
            world.probe("vendor_specific_block_exits_checked")
        world.probe("direct_patchtree_checked")
        return None


def V(clause, key, **detail):
    return {"clause": clause, "key": key, "detail": _plain(detail)}


def _plain(x):
    if isinstance(x, dict):
        return {str(k): _plain(v) for k, v in x.items()}
    if isinstance(x, (list, tuple)):
        return [_plain(v) for v in x]
    if isinstance(x, (str, int, float, bool)) or x is None:
        return x
    return repr(x)


RULES = {
    "C01": ("one run = one seeded history against the real `annet deploy` (api.adeploy): a synthetic rulebook drawn from the "
            "rule language (literal words, *, ~, nested blocks, %global, %ordered, %rewrite bodies, negated rules, undo_redo/"
            "permanent/ignore_changes), a vendor (huawei CE/non-CE, cisco, nexus, arista, iosxr, aruba, b4com, h3c), 1-2 devices, "
            "2-5 steps of (new desired config | out-of-band edit | deploy with fetch failure/stall or connection cut at a drawn "
            "command), each un-cut deploy followed by a second deploy that must send nothing. Non-trivial = at least one deploy "
            "delivered >=1 command to a device. Distinct = SHA-256 over (vendor, per-step outcome, fault positions, final device "
            "configs)."),
    "C02": ("one run = one seeded history against the real `annet deploy`: synthetic rulebook, 1-3 generators owning random "
            "sub-forests of it (ACL texts with nesting, ~ %global, %cant_delete=0/1, the built-in `interface` default, blocks "
            "shared between generators), devices holding owned and unmanaged lines, 2-4 steps of (new desired | out-of-band edit | "
            "deploy, possibly cut at any command). After EVERY command the device executes: the command path is ACL-covered level "
            "by level (independent matcher over the ownership tables), no unmanaged line was touched, no line covered only by "
            "cant_delete rules was removed (judged on removal events). Non-trivial = >=1 command delivered. Distinct = SHA-256 "
            "over (vendor, step outcomes, fault positions, final device configs)."),
    "C09": ("one run = 1-3 seeded deploys through the real `annet patch` and `annet deploy` front ends on a synthetic patching + "
            "ordering + DEPLOY rulebook (timeouts, dialogs, nested rules, sibling rules with disjoint languages) with dont_commit "
            "drawn, against a device that behaves per the reference deploy rules on the virtual clock (latency just below the "
            "matching rule's timeout, questions from its dialogs), plus one directly built PatchTree (distinct sibling rows, depth "
            "<= 4) through formatter.patch / cmd_paths / apply_deploy_rulebook. The stream received by the driver must equal "
            "wrapper-before + the shown patch + wrapper-after. Non-trivial = >=1 command delivered. Distinct = SHA-256 over "
            "(vendor, step outcomes, final device configs)."),
}
