"""C12 -- the worker pool returns exactly one result per submitted device (DESIGN.md 5, C12).

System under simulation (real code): annet.parallel.Parallel.irun/run, _check_children,
pool_worker/_pool_worker, invoke_retry, _run_callbacks/_cb_wrapper, TaskResult,
PickleSafeException.  Stubs: multiprocessing, time, os.kill.
"""
import hashlib
import logging

from ..kernel import Sim, FakeTime, Deadlock, StepCap, HarnessError
from ..fakemp import FakeMP
from .. import seams, simloop

POLL = 1.0


class InjectedError(Exception):
    """raised by a simulated task (fault kind task_raise)"""


class CallbackError(Exception):
    """raised by a simulated callback"""


class Unpicklable:
    """a task result that cannot cross a process boundary (holds a lock)"""

    def __init__(self, i):
        import threading
        self.i = i
        self.lock = threading.Lock()


class PoolMP(FakeMP):
    def describe(self, item):
        # no reprs of arbitrary objects in the event log (addresses would break determinism)
        if isinstance(item, tuple) and len(item) == 4:
            wn, task, results, exc = item
            return "result(%s,%r,n=%d,exc=%s)" % (wn, getattr(task, "payload", None), len(results),
                                                 type(exc).__name__ if exc is not None else None)
        t = getattr(item, "type", None)
        if t is not None:
            return "task(%s,%r)" % (getattr(t, "value", t), getattr(item, "payload", None))
        return type(item).__name__


async def _echo(x):
    return x


def _canon(items):
    if items is None:
        return None
    return [tuple(x) if isinstance(x, (list, tuple)) else x for x in items]


def make_ids(kind, n):
    if kind == 0:
        return list(range(n))
    if kind == 1:
        return ["dev-%d.sim" % i for i in range(n)]
    if kind == 2:
        return [("/old/host%d.cfg" % i, "/new/host%d.cfg" % i) for i in range(n)]
    # long path pairs: a few dozen of them outgrow a pipe buffer
    deep = "/".join("dir%02d-%s" % (k, "x" * 24) for k in range(60))
    return [("/old/%s/host%d.cfg" % (deep, i), "/new/%s/host%d.cfg" % (deep, i)) for i in range(n)]


class Engine:
    name = "pool"
    spec = "pool"
    property_id = "C12"
    runs = {"quick": 32000, "thorough": 5000000}
    wall = {"quick": 300, "thorough": 1200}
    selftest_n = {"quick": 48, "thorough": 256}
    chunk = 250
    rule = ("one run = one seeded execution of the real Parallel.irun/run over fake multiprocessing: workload "
            "(n ids, pool size, max_tasks, net_retry, task_timeout, durations, consumer/callback delays, raising "
            "ids, transient network errors, tolerate_fails, irun/run, callbacks, tasks that run a coroutine in the worker through "
            "annet.lib.do_async; one run in 16 submits some id several times and is judged on multisets), every scheduling decision and "
            "every delay are drawn from one choice list. Non-trivial = the multi-process path ran (>=2 workers, "
            ">=2 ids). Distinct = distinct SHA-256 of the sequence of (task, operation) events of the run.")
    components_real = ["annet.api.patch / annet.api.gen with PoolProgressLogger over simulated devices (1 run in 12)",
                       "annet.parallel.Parallel.irun/run/_check_children/_run_callbacks/_cb_wrapper",
                       "annet.parallel.pool_worker/_pool_worker/invoke_retry/TaskResult/PickleSafeException",
                       "pickle round trip of every queue item", "queue.Empty"]
    components_stub = ["multiprocessing (FakeMP: processes are baton-passed threads; Queue with feeder delay, "
                       "FIFO per producer, exit waits for feeder flush)", "time (virtual clock)", "os.kill (recorder)",
                       "tracing (annet's default no-op connector)", "asyncio loops created by workers (virtual loop)"]
    assumptions = ["pre-emption only at intercepted multiprocessing/time operations (workers are separate processes "
                   "sharing only the two queues)", "pipe capacity unbounded", "no worker killed from outside",
                   "capture_output stays off (process-wide sys.stdout is shared by simulated workers)"]

    def __init__(self, tier="quick"):
        self.tier = tier
        self.args = {}

    def setup(self):
        logging.disable(logging.CRITICAL)
        import annet.parallel as P  # noqa
        self.P = P
        simloop.install()
        # production callers (api.patch / api.gen over several devices) need the whole annet environment
        from .. import env
        from ..worlds import fakes as F
        self.provider = env.init()
        F.install()
        import annet.api as api
        from annet import cli_args
        self.api, self.cli_args, self.F = api, cli_args, F
        from annet.lib import do_async
        self.do_async = do_async

    # ------------------------------------------------------------------ production callers through the pool
    def _run_production(self, ch):
        """api.patch / api.gen (the production callers of the pool) over 2..6 simulated devices with parallel > 1 on the
        fake multiprocessing: one outcome per device id, equal to what the single-process path computes"""
        import annet.gen as ann_gen
        from annet.annlib.rbparser.ordering import compile_ordering_text
        from annet.rulebook.deploying import compile_deploying_text
        from annet.rulebook.patching import compile_patching_text
        from .cli import CliWorld, VENDORS
        from ..worlds import cli as W
        P, F = self.P, self.F
        ndev = 2 + ch.draw(5, "prod-ndev")
        world = CliWorld(ch, "C01", ch.draw(1000000, "serial"), ndev=ndev)
        F.WORLD = world
        vkey = VENDORS[world.vname][0]
        rbc = {"patching": compile_patching_text(world.rb_text, vkey), "ordering": compile_ordering_text(world.order_text, vkey),
               "deploying": compile_deploying_text("", vkey)}
        self.provider.register(world.hw, rbc)
        for d in world.inv:
            world.desired[d.id] = W.gen_tree(ch, world.rb)
        front = ch.pick(["patch", "gen"], "prod-front")
        par = 2 + ch.draw(4, "prod-parallel")
        max_tasks = ch.pick([None, 1, 2, 25], "prod-max-tasks")
        progress = ch.draw(2, "prod-progress") == 1
        fetch_fail = set()      # (api.patch treats a failed fetch as an empty config; not this property's business)
        world.fetch_plan = {i: {"fail": "exc"} for i in fetch_fail}
        cfg = {"feeder_delay": [0.0, 0.01, 0.4], "start_delay": [0.0, 0.3], "exit_delay": [0.0, 0.3, 1.2],
               "stall_den": ch.pick([0, 6], "prod-stall"), "stall": [0.01, 0.5, 1.1]}
        loader = F.SimLoader(world.inv, lambda d: (world.gens, []))

        def call(parallel):
            if front == "patch":
                args = self.cli_args.ShowPatchOptions(query=F.SimQuery(), config="running", parallel=parallel, max_tasks=max_tasks,
                                                      tolerate_fails=True, indent="  ", show_hosts_progress=progress)
                ann_gen.live_configs = None
                return self.api.patch(args, loader)
            args = self.cli_args.ShowGenOptions(query=F.SimQuery(), parallel=parallel, max_tasks=max_tasks, tolerate_fails=True,
                                                indent="  ", show_hosts_progress=progress)
            return self.api.gen(args, loader)
        results = {}
        sims = []
        faults, probes = {}, {}
        try:
            for parallel in (1, par):
                sim = Sim(ch, max_steps=60000, strategy={"kind": "uniform"}, time_limit=100000.0)
                mp = PoolMP(sim, cfg)
                outcome = {}

                def parent(parallel=parallel, outcome=outcome):
                    try:
                        outcome["res"] = call(parallel)
                    except BaseException as e:  # pylint: disable=broad-except
                        if type(e).__name__ == "Killed":
                            raise
                        outcome["exc"] = e
                saved = seams.bind(P, sim, fake_mp=mp, fake_time=FakeTime(sim, __import__("time")),
                                   fake_os=seams.OsProxy(sim, __import__("os")), require=("mp", "time"))
                try:
                    sim.spawn("parent", parent)
                    end = None
                    try:
                        sim.run()
                    except (Deadlock, StepCap) as e:
                        end = str(e)
                    sim.kill_all()
                finally:
                    seams.unbind(P, saved)
                sims.append(sim)
                for k, v in mp.fired.items():
                    faults[k] = faults.get(k, 0) + v
                if any(p._exitcode == 9 for p in mp.processes):
                    faults["retire"] = faults.get("retire", 0) + 1
                if end is not None:
                    return self._prod_result(ch, world, front, par, sims, faults, probes,
                                             {"clause": "no-termination", "key": "production-caller", "detail": {"why": end, "front": front}})
                if "exc" in outcome:
                    return self._prod_result(ch, world, front, par, sims, faults, probes,
                                             {"clause": "unexpected-exception", "key": "production-caller",
                                              "detail": {"exc": repr(outcome["exc"])[:300], "front": front, "parallel": parallel}})
                results[parallel] = outcome["res"]
        finally:
            self.provider.unregister(world.hw)
            for f in (compile_patching_text, compile_ordering_text, compile_deploying_text):
                f.cache_clear()
            F.WORLD = None
        violation = None
        ids = [d.id for d in world.inv]
        ok1, fail1 = results[1]
        okp, failp = results[par]
        for name, (ok, fail) in (("single-process", (ok1, fail1)), ("pool", (okp, failp))):
            got = sorted(list(ok) + list(fail))
            if got != sorted(ids):
                violation = {"clause": "lost-result" if len(got) < len(ids) else "duplicate-result", "key": "production-caller",
                             "detail": {"front": front, "path": name, "submitted": ids, "delivered": got, "parallel": par}}
                break
            if set(fail) != fetch_fail:
                violation = {"clause": "wrong-failure-attribution", "key": "production-caller",
                             "detail": {"front": front, "path": name, "failed": sorted(fail), "expected_failed": sorted(fetch_fail)}}
                break
        if violation is None:
            for i in ids:
                if i in ok1 and _canon(ok1[i]) != _canon(okp.get(i)):
                    violation = {"clause": "wrong-payload", "key": "production-caller",
                                 "detail": {"front": front, "device": i, "single_process": _canon(ok1[i]), "pool": _canon(okp.get(i))}}
                    break
        if par > 1 and len(ids) > 1:
            probes["production_caller_through_pool"] = 1
        return self._prod_result(ch, world, front, par, sims, faults, probes, violation)

    def _prod_result(self, ch, world, front, par, sims, faults, probes, violation):
        trace = []
        for sim in sims:
            trace.extend(sim.trace)
        h = hashlib.sha256(("prod|%s|%s|" % (front, world.vname)).encode())
        for ev in trace:
            h.update(("%s|%s;" % (ev[2], ev[3])).encode())
        return {"violation": violation, "nontrivial": True, "sig": int.from_bytes(h.digest()[:8], "big"),
                "sim_s": sum(s.now for s in sims), "steps": sum(s.steps for s in sims), "faults": faults, "probes": probes,
                "strategy": "production-" + front, "scenario": {"mode": "production caller", "front": front, "parallel": par,
                                                               "devices": len(world.inv), "vendor": world.vname},
                "trace": trace}

    # ------------------------------------------------------------------ a list that names an id more than once
    def _run_repeated(self, ch):
        """`multiset(ids delivered) == multiset(submitted)`: the same id submitted several times is that many tasks"""
        P = self.P
        n = 2 + ch.draw(7, "rep-n")
        base = ["dev-%d.sim" % i for i in range(n)]
        ids = list(base)
        for _ in range(1 + ch.draw(3, "rep-extra")):
            ids.insert(ch.draw(len(ids) + 1, "rep-pos"), base[ch.draw(n, "rep-which")])
        par = 2 + ch.draw(4, "rep-parallel")
        max_tasks = ch.pick([0, 1, 2, 25], "rep-max-tasks")
        durs = {b: ch.pick([0.0, 0.1, 0.3, 1.0, 2.5], "rep-dur") for b in base}
        cons = [ch.pick([0.0, 0.0, 0.5, 4.0], "rep-cons") for _ in ids]
        big = ch.draw(4, "rep-big") == 0
        salt = ch.draw(1000, "salt")
        cfg = {"feeder_delay": [0.0, 0.001, 0.05, 0.6], "start_delay": [0.0, 0.3], "exit_delay": [0.0, 0.3, 1.2],
               "stall_den": ch.pick([0, 6], "rep-stall"), "stall": [0.02, 0.4, 1.1], "cpus": 4}
        sim = Sim(ch, max_steps=30000, strategy={"kind": "uniform"}, time_limit=sum(durs[i] for i in ids) + sum(cons) + 200.0)
        mp = PoolMP(sim, cfg)
        fos = seams.OsProxy(sim, __import__("os"))

        def payload(dev_id):
            return ("payload", dev_id, salt, "x" * (70000 if big else 0))

        def f(dev_id):
            sim.log("task", dev_id)
            if durs[dev_id]:
                sim.sleep(durs[dev_id])
            else:
                sim.yield_()
            return payload(dev_id)
        delivered, outcome = [], {}

        def parent():
            try:
                p = P.Parallel(f).tune(parallel=par, max_tasks=max_tasks, task_timeout=1800)
                for k, r in enumerate(p.irun(list(ids))):
                    delivered.append((r.device_id, r.result, r.exc))
                    sim.log("deliver", repr(r.device_id))
                    if k < len(cons) and cons[k]:
                        sim.sleep(cons[k])
                outcome["tasks_done"] = p.tasks_done
            except BaseException as e:  # pylint: disable=broad-except
                if type(e).__name__ == "Killed":
                    raise
                outcome["exc"] = e
        saved = seams.bind(P, sim, fake_mp=mp, fake_time=FakeTime(sim, __import__("time")), fake_os=fos, require=("mp", "time"))
        try:
            sim.spawn("parent", parent)
            end = None
            try:
                sim.run()
            except Deadlock as e:
                end = ("deadlock", str(e))
            except StepCap as e:
                end = ("no-termination", str(e))
            leftovers = [t.name for t in sim.unfinished()]
            sim.kill_all()
        finally:
            seams.unbind(P, saved)

        def V(clause, **detail):
            detail.update(submitted=ids, parallel=par, max_tasks=max_tasks)
            return {"clause": clause, "key": "repeated-ids", "detail": detail}
        violation = None
        got = sorted(d[0] for d in delivered)
        if end is not None:
            violation = V(end[0], why=end[1], leftovers=leftovers)
        elif leftovers:
            violation = V("process-left-running", leftovers=leftovers)
        elif "exc" in outcome:
            violation = V("unexpected-exception", exc=repr(outcome["exc"])[:300])
        elif got != sorted(ids):
            violation = V("lost-result" if len(got) < len(ids) else "duplicate-result", delivered=got)
        elif any(e is not None or r != payload(i) for i, r, e in delivered):
            violation = V("wrong-payload", delivered=[(i, repr(e)[:80]) for i, r, e in delivered if e is not None or r != payload(i)][:3])
        elif outcome.get("tasks_done") != len(ids):
            violation = V("tasks-done-mismatch", tasks_done=outcome.get("tasks_done"))
        elif any(p.is_alive() for p in mp.processes):
            violation = V("process-left-running", alive=[p.name for p in mp.processes if p.is_alive()])
        elif fos.kills:
            violation = V("spurious-timeout", kills=fos.kills[:4])
        faults = dict(mp.fired)
        if any(p._exitcode == 9 for p in mp.processes):
            faults["retire"] = 1
        h = hashlib.sha256(b"rep|")
        for ev in sim.trace:
            h.update(("%s|%s;" % (ev[2], ev[3])).encode())
        return {"violation": violation, "nontrivial": True, "sig": int.from_bytes(h.digest()[:8], "big"), "sim_s": sim.now,
                "steps": sim.steps, "faults": faults, "probes": {"id_submitted_more_than_once": 1}, "strategy": "repeated-ids",
                "scenario": {"mode": "repeated ids", "ids": ids, "parallel": par, "max_tasks": max_tasks, "durations": durs,
                             "consumer_delays": cons, "large_results": big, "delays": cfg},
                "trace": sim.trace}

    # ------------------------------------------------------------------ one run
    def run(self, ch):
        P = self.P
        if ch.draw(12, "production-caller") == 0:
            return self._run_production(ch)
        if ch.draw(16, "repeated-ids") == 0:
            return self._run_repeated(ch)
        # --- swarm: which fault kinds are enabled in this run
        on = {k: ch.draw(2, "swarm-" + k) == 1 for k in
              ("raise", "net", "retire", "slow_consumer", "slow_callback", "feeder", "start", "exit", "stall", "cb_raise",
               "unpicklable")}
        skind = ch.weighted([(5, "uniform"), (3, "prio"), (1, "starve-parent"), (1, "starve-worker")], "strategy")
        if skind == "prio":
            strategy = {"kind": "prio", "changes": [ch.draw(400, "chg") for _ in range(ch.draw(4, "nchg"))]}
        elif skind == "starve-parent":
            strategy = {"kind": "starve", "victim": "parent"}
        elif skind == "starve-worker":
            strategy = {"kind": "starve", "victim": "Worker-0"}
        else:
            strategy = {"kind": "uniform"}
        n = ch.weighted([(1, 0), (1, 1), (4, 2), (4, 3), (4, 4), (3, 5), (3, 6), (2, 8), (1, 12), (1, 20), (1, 40)], "n")
        par = 1 + ch.draw(8, "parallel")
        max_tasks = ch.pick([0, 1, 1, 2, 2, 3, 5, 25], "max_tasks") if on["retire"] else ch.pick([0, 25], "max_tasks")
        net_retry = ch.draw(4, "net_retry")
        idkind = ch.draw(4, "idkind")
        ids = make_ids(idkind, n)
        durs = [ch.pick([0.0, 0.0, 0.3, 0.95, 1.0, 1.05, 2.5, 7.0], "dur") for _ in range(n)]
        raising = set(i for i in range(n) if on["raise"] and ch.draw(5, "raises") == 0)
        transient = [ch.pick([0, 0, 0, 1, 2, 3, 4], "transient") if on["net"] else 0 for _ in range(n)]
        unpick = set(i for i in range(n) if on["unpicklable"] and i not in raising and ch.draw(6, "unpicklable") == 0)
        nested = ch.draw(2, "nested-net") == 1
        tolerate = ch.draw(4, "tolerate") != 0
        use_irun = ch.draw(3, "irun") != 0
        cons = [ch.pick([0.0, 0.0, 0.5, 1.5, 4.0, 12.0], "cons") if on["slow_consumer"] else 0.0 for _ in range(n)]
        cbmode = ch.weighted([(4, "none"), (2, "parent"), (2, "thread"), (1, "both"), (1, "gen")], "cbmode")
        cbdelay = [ch.pick([0.0, 0.2, 1.5, 6.0], "cbdelay") if on["slow_callback"] else 0.0 for _ in range(n)]
        cbraise = set(i for i in range(n) if on["cb_raise"] and cbmode != "none" and ch.draw(6, "cbraise") == 0)
        as_gen = ch.draw(4, "f-gen") == 0
        # tasks that run a coroutine to completion in the worker, the way annet's fetchers do (annet.lib.do_async)
        async_task = ch.draw(4, "task-uses-asyncio") == 0
        cfg = {
            "feeder_delay": [0.0, 0.0, 0.001, 0.05, 0.6] if on["feeder"] else [0.0],
            "start_delay": [0.0, 0.01, 0.3, 1.2] if on["start"] else [0.0],
            "exit_delay": [0.0, 0.01, 0.3, 1.2] if on["exit"] else [0.0],
            "stall_den": 6 if on["stall"] else 0,
            "stall": [0.0005, 0.02, 0.4, 1.1],
            "cpus": 4,
        }
        attempts = [min(transient[i], net_retry) + 1 for i in range(n)]
        dmax = max([durs[i] * attempts[i] for i in range(n)] + [0.0]) + (max(cbdelay + [0.0]) if cbmode in ("thread", "both") else 0)
        slack = 2 * (dmax + max(cfg["feeder_delay"]) + max(cfg["start_delay"]) + max(cfg["exit_delay"]) +
                     (4 * max(cfg["stall"]) if on["stall"] else 0) + 2 * POLL + 2.0)
        tight = ch.draw(3, "task_timeout") != 0
        task_timeout = slack if tight else 1800
        total_work = sum(durs[i] * attempts[i] for i in range(n)) + sum(cons) + 2 * sum(cbdelay)
        time_limit = total_work + n * (3.0 + 8 * max(cfg["stall"]) + max(cfg["start_delay"]) + max(cfg["exit_delay"])) \
            + task_timeout + 60.0
        salt = ch.draw(1000, "salt")
        # the same Parallel object may have been used before -- possibly for a strict run that was aborted by a failing task
        reuse = ch.draw(5, "reuse-pool-object") == 0
        pre_n = 2 + ch.draw(4, "pre-n") if reuse else 0
        pre_fail = ch.draw(pre_n + 1, "pre-fail") if reuse else 0       # index of the raising id, pre_n = none raises
        pre_strict = ch.draw(2, "pre-strict") == 1 if reuse else False

        sim = Sim(ch, max_steps=20000 + 2500 * n, strategy=strategy, time_limit=time_limit)
        mp = PoolMP(sim, cfg)
        ftime = FakeTime(sim, __import__("time"))
        fos = seams.OsProxy(sim, __import__("os"))
        faults = {}
        probes = {}

        def fire(d, k):
            d[k] = d.get(k, 0) + 1

        idx_of = {repr(ids[i]): i for i in range(n)}
        calls = {}

        def payload(i):
            v = ("payload", ids[i], salt)
            return [v, ("tail", i)] if as_gen else v

        def f(dev_id):
            if isinstance(dev_id, str) and dev_id.startswith("pre-"):
                sim.yield_()
                if dev_id == "pre-%d" % pre_fail:
                    raise InjectedError("boom " + dev_id)
                return ("pre", dev_id)
            i = idx_of[repr(dev_id)]
            k = calls[i] = calls.get(i, 0) + 1
            sim.log("task", i, k)
            if async_task and (i + salt) % 2 == 0:
                fire(probes, "task_ran_coroutine_in_worker")
                if self.do_async(_echo(i)) != i:
                    raise HarnessError("do_async lost its value")
            if durs[i]:
                sim.sleep(durs[i])
            else:
                sim.yield_()
            if k <= transient[i]:
                fire(faults, "net_error")
                if k > 1:
                    fire(probes, "retry_path_taken")
                err = (ConnectionResetError if (i + k) % 2 else BrokenPipeError)("sim net %d/%d" % (i, k))
                if nested:
                    try:
                        raise err
                    except OSError:
                        raise RuntimeError("wrapped")   # reachable via __context__
                raise err
            if i in raising:
                fire(faults, "task_raise")
                raise InjectedError("boom %d" % i)
            if i in unpick:
                fire(faults, "unpicklable_result")
                return Unpicklable(i)
            if as_gen:
                return (x for x in payload(i))
            return payload(i)

        def cb_parent(pool, tr):
            if repr(tr.device_id) not in idx_of:
                return tr
            i = idx_of[repr(tr.device_id)]
            if cbdelay[i]:
                fire(faults, "slow_callback")
                sim.sleep(cbdelay[i])
            if i in cbraise and cbmode in ("parent", "both"):
                fire(faults, "callback_raise")
                raise CallbackError("cb %d" % i)
            return tr

        def cb_thread(pool, tr):
            if repr(tr.device_id) not in idx_of:
                return tr
            i = idx_of[repr(tr.device_id)]
            if cbdelay[i]:
                fire(faults, "slow_callback")
                sim.sleep(cbdelay[i])
            if i in cbraise and cbmode == "thread":
                fire(faults, "callback_raise")
                raise CallbackError("cb %d" % i)
            return tr

        def cb_gen(pool, tr):
            sim.yield_()
            yield tr

        delivered = []
        outcome = {}

        def on_get(q):
            if len(mp.queues) > 1 and q is mp.queues[1] and mp.processes and q.pipe and \
                    all(p._exitcode is not None for p in mp.processes):
                fire(probes, "poll_with_results_queued_after_all_workers_exited")

        def parent():
            try:
                p = P.Parallel(f).tune(parallel=par, max_tasks=max_tasks, net_retry=net_retry, task_timeout=task_timeout)
                if cbmode in ("parent", "both"):
                    p.add_callback(cb_parent)
                if cbmode in ("thread", "both"):
                    p.add_callback(cb_thread, in_thread=True)
                if cbmode == "gen":
                    p.add_callback(cb_gen)
                if reuse:
                    try:
                        for _r in P.Parallel.irun(p, ["pre-%d" % k for k in range(pre_n)], not pre_strict):
                            pass
                    except P.PickleSafeException:
                        fire(probes, "earlier_run_on_the_same_pool_object_aborted")
                    sim.log("pre-run-done")
                if use_irun:
                    k = 0
                    for r in p.irun(list(ids), tolerate):
                        delivered.append((r.device_id, r.result, r.exc))
                        sim.log("deliver", repr(r.device_id))
                        if k < n and cons[k]:
                            fire(faults, "slow_consumer")
                            sim.sleep(cons[k])
                        k += 1
                    outcome["tasks_done"] = p.tasks_done
                else:
                    ok, fail = p.run(list(ids), tolerate)
                    outcome["run"] = (ok, fail)
                    outcome["tasks_done"] = p.tasks_done
            except BaseException as e:  # pylint: disable=broad-except
                if type(e).__name__ == "Killed":
                    raise
                outcome["exc"] = e

        orig_get = PoolMP.Queue

        saved = seams.bind(P, sim, fake_mp=mp, fake_time=ftime, fake_os=fos, require=("mp", "time"))
        real_get = None
        try:
            # probe hook: wrap the done queue's get once it exists
            def queue_factory(maxsize=0):
                q = orig_get(mp, maxsize)
                inner = q.get

                def get(block=True, timeout=None):
                    on_get(q)
                    return inner(block, timeout)
                q.get = get
                return q
            mp.Queue = queue_factory
            sim.spawn("parent", parent)
            end = None
            try:
                sim.run()
            except Deadlock as e:
                end = ("deadlock", str(e))
            except StepCap as e:
                end = ("no-termination", str(e))
            leftovers = [t.name for t in sim.unfinished()]
            sim.kill_all()
        finally:
            seams.unbind(P, saved)

        # ------------------------------------------------------------ oracle
        for kind, cnt in mp.fired.items():
            faults[kind] = faults.get(kind, 0) + cnt
        if any(p._exitcode == 9 for p in mp.processes):
            fire(faults, "retire")
            probes["retired_workers"] = sum(1 for p in mp.processes if p._exitcode == 9)
        if any(ev[3] == "get-empty" for ev in sim.trace):
            fire(probes, "empty_poll")
        multi = n >= 2 and par >= 2
        scenario = {"n": n, "parallel": par, "max_tasks": max_tasks, "net_retry": net_retry, "task_timeout": task_timeout,
                    "ids": ["int", "str", "path-tuple", "long-path-tuple"][idkind], "durations": durs,
                    "raising": sorted(raising), "unpicklable_results": sorted(unpick), "transient": transient, "nested_net_exc": nested, "tolerate_fails": tolerate,
                    "api": "irun" if use_irun else "run", "consumer_delays": cons, "callbacks": cbmode, "callback_delays": cbdelay,
                    "callback_raises": sorted(cbraise), "task_returns_generator": as_gen, "task_runs_coroutine": async_task, "delays": cfg, "strategy": strategy,
                    "swarm": {k: v for k, v in on.items()}}
        violation = self._oracle(end, leftovers, outcome, delivered, ids, n, par, raising, transient, net_retry, tolerate,
                                 use_irun, cbmode, cbraise, payload, mp, fos, multi, unpick)
        h = hashlib.sha256()
        for ev in sim.trace:
            h.update(("%s|%s;" % (ev[2], ev[3])).encode())
        sig = int.from_bytes(h.digest()[:8], "big")
        return {"violation": violation, "nontrivial": multi, "sig": sig, "sim_s": sim.now, "steps": sim.steps,
                "faults": faults, "probes": probes, "strategy": skind, "scenario": scenario, "trace": sim.trace}

    # ------------------------------------------------------------------ oracle
    def _oracle(self, end, leftovers, outcome, delivered, ids, n, par, raising, transient, net_retry, tolerate,
                use_irun, cbmode, cbraise, payload, mp, fos, multi, unpick=()):
        P = self.P

        def V(clause, key, **detail):
            return {"clause": clause, "key": key, "detail": detail}
        if end is not None:
            return V(end[0], end[0], why=end[1], leftovers=leftovers)
        if leftovers:
            return V("process-left-running", "leftover", leftovers=leftovers)
        exp_fail = {}
        for i in range(n):
            if transient[i] > net_retry:
                exp_fail[i] = "net"
            elif i in raising:
                exp_fail[i] = "raise"
            elif i in unpick and par > 1 and n > 1:
                # a result that cannot be pickled must come back as a failure of that id (multi-process path only:
                # the single-process path hands the object over directly)
                exp_fail[i] = "unpicklable"
        exc = outcome.get("exc")
        if not use_irun and "run" in outcome:
            ok, fail = outcome["run"]
            delivered = [(k, v, None) for k, v in ok.items()] + [(k, None, v) for k, v in fail.items()]
        idx_of = {repr(ids[i]): i for i in range(n)}
        seen = {}
        for dev_id, result, e in delivered:
            i = idx_of.get(repr(dev_id))
            if i is None:
                return V("unknown-id-delivered", "unknown-id", id=repr(dev_id))
            if i in seen:
                return V("duplicate-result", "duplicate", id=repr(dev_id))
            seen[i] = True
            cb_fails = i in cbraise and cbmode in ("parent", "thread", "both")
            if i in exp_fail:
                if e is None:
                    return V("failure-delivered-as-success", "fail-as-ok", id=repr(dev_id), result=repr(result))
                if isinstance(e, CallbackError):
                    continue
                if not isinstance(e, P.PickleSafeException):
                    return V("wrong-failure-object", "wrong-exc-type", id=repr(dev_id), exc=repr(e))
                want = {"raise": InjectedError, "unpicklable": (TypeError, AttributeError, Exception)}.get(
                    exp_fail[i], (ConnectionResetError, BrokenPipeError, RuntimeError))
                if not issubclass(e.orig_exc_cls, want) or repr(e.device_id) != repr(dev_id):
                    return V("wrong-failure-attribution", "wrong-exc-attr", id=repr(dev_id), exc=repr(e),
                             exc_device=repr(e.device_id))
            else:
                if i in unpick:
                    if e is None and isinstance(result, Unpicklable) and result.i == i:
                        continue            # single-process path: the very object is handed over
                if e is not None:
                    if cb_fails and isinstance(e, CallbackError):
                        continue
                    return V("success-delivered-as-failure", "ok-as-fail", id=repr(dev_id), exc=repr(e)[:300])
                if cb_fails:
                    return V("callback-failure-lost", "cb-fail-lost", id=repr(dev_id))
                if result != payload(i):
                    return V("wrong-payload", "wrong-payload", id=repr(dev_id), got=repr(result), want=repr(payload(i)))
        if exc is not None:
            if isinstance(exc, P.annet.ExecError) and not str(exc):
                return V("spurious-timeout", "timeout-path", exc=repr(exc), kills=fos.kills[:4], delivered=len(seen), n=n)
            if tolerate or not exp_fail:
                return V("unexpected-exception", "unexpected-exc", exc=repr(exc)[:300])
            if isinstance(exc, P.PickleSafeException):
                i = idx_of.get(repr(exc.device_id))
                if i is None or i not in exp_fail:
                    return V("wrong-failure-attribution", "raised-exc-wrong-id", exc=repr(exc), exc_device=repr(exc.device_id))
                if i in seen:
                    return V("duplicate-result", "raised-after-delivery", id=repr(exc.device_id))
            else:
                return V("unexpected-exception", "unexpected-exc-type", exc=repr(exc)[:300])
            if any(p.is_alive() for p in mp.processes):
                return V("process-left-running", "alive-after-raise", alive=[p.name for p in mp.processes if p.is_alive()])
            return None
        if not tolerate and exp_fail:
            return V("missing-failure", "no-raise-with-tolerate-off", expected=sorted(exp_fail), delivered=len(seen), n=n)
        if len(seen) != n:
            lost = [repr(ids[i]) for i in range(n) if i not in seen]
            return V("lost-result", "lost", lost=lost[:10], delivered=len(seen), n=n, dropped_by_queue=mp.unpicklable[:3])
        if use_irun or "run" in outcome:
            td = outcome.get("tasks_done")
            if td != n:
                return V("tasks-done-mismatch", "tasks-done", tasks_done=td, n=n)
        if any(p.is_alive() for p in mp.processes):
            return V("process-left-running", "alive-after-return", alive=[p.name for p in mp.processes if p.is_alive()])
        if fos.kills:
            return V("spurious-timeout", "kill-sent", kills=fos.kills[:4])
        return None
