"""C11 -- VLAN-list commands change exactly the VLANs that differ (DESIGN.md 5, C11).

Whole-system runs of the real `annet deploy` on the SHIPPED huawei / cisco / nexus rulebooks
against a set-valued device model: every VLAN list of the device is a set, rendered with the
device's own range writer split over 1..4 lines; the generator renders the desired set with
an independent splitting.  After every command the device executes (= every point where a
deploy can be cut) no VLAN present in both the old and the new set may be missing.
"""
import asyncio
import contextlib
import copy
import hashlib
import re
import tempfile
from collections import OrderedDict as odict

from .. import env, simloop
from ..kernel import HarnessError
from ..worlds import fakes as F

HUAWEI_MODELS = ["Huawei CE6870", "Huawei S5700"]
CISCO_MODELS = ["Cisco Catalyst 3750", "Cisco Nexus 3172"]


# ----------------------------------------------------------------------------- independent range code
def ranges(s):
    s = sorted(s)
    out, i = [], 0
    while i < len(s):
        j = i
        while j + 1 < len(s) and s[j + 1] == s[j] + 1:
            j += 1
        out.append((s[i], s[j]))
        i = j + 1
    return out


def split_ranges(ch, rs, maxlines=4, tag="split"):
    if not rs:
        return []
    k = 1 + ch.draw(min(maxlines, len(rs)), tag)
    cuts = sorted(set(1 + ch.draw(len(rs) - 1, tag + "-cut") for _ in range(k - 1))) if len(rs) > 1 else []
    bounds = [0] + cuts + [len(rs)]
    return [rs[a:b] for a, b in zip(bounds, bounds[1:]) if rs[a:b]]


def hw_tokens(part):
    return " ".join(str(a) if a == b else ("%d %d" % (a, b) if b == a + 1 and False else "%d to %d" % (a, b)) for a, b in part)


def hw_parse(tokens):
    s, i = set(), 0
    while i < len(tokens):
        if i + 2 < len(tokens) and tokens[i + 1] == "to":
            s.update(range(int(tokens[i]), int(tokens[i + 2]) + 1))
            i += 3
        else:
            s.add(int(tokens[i]))
            i += 1
    return s


def cs_tokens(part, tiny=True):
    out = []
    for a, b in part:
        if a == b:
            out.append(str(a))
        elif b == a + 1 and not tiny:
            out.extend([str(a), str(b)])
        else:
            out.append("%d-%d" % (a, b))
    return ",".join(out)


def cs_parse(text):
    s = set()
    for p in text.split(","):
        p = p.strip()
        if not p:
            continue
        if "-" in p:
            a, b = p.split("-")
            s.update(range(int(a), int(b) + 1))
        else:
            s.add(int(p))
    return s


# ----------------------------------------------------------------------------- slots (one VLAN list each)
class Slot:
    """kind: hw-trunk | hw-tagged | hw-untagged | hw-batch | hw-pool | hw-instance | cs-trunk | cs-vlan | cs-group"""

    def __init__(self, kind, ctx, prefix, extra=()):
        self.kind, self.ctx, self.prefix, self.extra = kind, ctx, prefix, tuple(extra)
        self.cur = set()
        self.parts = []          # how the device currently splits the list over config lines (stable between fetches)
        self.parts_of = None     # the set self.parts was computed for
        self.names = {}          # hw-batch / cs-vlan: vlan id -> name (vlan N / name X blocks)
        self.style = "list+blocks"   # cs-vlan: "list+blocks" (NX-OS: named VLANs are also on the list lines) or
                                     # "blocks" (IOS: a named VLAN appears only as its block)

    @property
    def name(self):
        return "%s|%s|%s" % (self.kind, self.ctx or "-", self.prefix)

    def partition(self, ch, vset, tag):
        return split_ranges(ch, ranges(vset), 1 if self.kind == "hw-instance" else 4, tag)

    def listed(self, vset=None, names=None):
        """the VLANs that appear on the list lines"""
        vset = self.cur if vset is None else vset
        names = self.names if names is None else names
        if self.kind == "cs-vlan" and self.style == "blocks":
            return set(vset) - set(names)
        return set(vset)

    def device_parts(self, ch):
        """the device re-renders a list only when its content changed"""
        want = self.listed()
        if self.parts_of != want:
            self.parts = self.partition(ch, want, "dev-split")
            self.parts_of = set(want)
        return self.parts

    def render_parts(self, parts, tiny=True):
        if self.kind.startswith("hw"):
            return ["%s %s" % (self.prefix, hw_tokens(p)) for p in parts]
        lines = []
        for n, p in enumerate(parts):
            if self.kind == "cs-trunk" and n > 0:
                lines.append("%s add %s" % (self.prefix, cs_tokens(p, tiny)))
            else:
                lines.append("%s %s" % (self.prefix, cs_tokens(p, tiny)))
        return lines

    def render(self, ch, vset, tag, tiny=True):
        """config lines for a set, split over 1..4 lines"""
        parts = self.partition(ch, vset, tag)
        if self.kind.startswith("hw"):
            return ["%s %s" % (self.prefix, hw_tokens(p)) for p in parts]
        lines = []
        for n, p in enumerate(parts):
            if self.kind == "cs-trunk" and n > 0:
                lines.append("%s add %s" % (self.prefix, cs_tokens(p, tiny)))
            else:
                lines.append("%s %s" % (self.prefix, cs_tokens(p, tiny)))
        return lines


class VlanDevice:
    def __init__(self, hw, slots):
        self.hw = hw
        self.slots = slots
        self.huawei = hw.model.startswith("Huawei")
        self.two_stage = self.huawei and bool(hw.Huawei.CE)
        self.in_config = False
        self.ctx = None
        self.anomalies = []
        self.candidate = None
        self.executed = 0
        self.misplaced_names = 0
        self.on_change = None

    def snapshot(self):
        return {s.name: set(s.cur) for s in self.slots}

    def _sets(self):
        return self.candidate if (self.two_stage and self.candidate is not None) else {s.name: s.cur for s in self.slots}

    def show_config(self, ch, tiny=True):
        """the device's own rendering of its running config"""
        lines = []
        by_ctx = odict()
        for s in self.slots:
            by_ctx.setdefault(s.ctx, []).append(s)
        for ctx, slots in by_ctx.items():
            ind = ""
            body = []
            if ctx:
                lines.append(ctx)
                ind = " "
                for s in slots:
                    for e in s.extra:
                        if ind + e not in body:
                            body.append(ind + e)
            for s in slots:
                body.extend(ind + l for l in s.render_parts(s.device_parts(ch), tiny))
            lines.extend(body)
            if ctx and self.huawei:
                lines.append("#")
            for s in slots:
                for vid in sorted(s.names):
                    lines.extend(["vlan %d" % vid, " name %s" % s.names[vid]] + (["#"] if self.huawei else []))
        return "\n".join(lines) + "\n"

    def exec(self, level, row):
        self.executed += 1
        if not self.in_config:
            if row in ("system-view", "conf t"):
                self.in_config = True
                self.ctx = None
                if self.two_stage:
                    self.candidate = {s.name: set(s.cur) for s in self.slots}
                return None
            if row in ("save", "copy running-config startup-config"):
                return None
            return self._anomaly("command-outside-config-mode", level, row)
        if level == 0 and self.ctx is None:
            if row == "commit" and self.two_stage:
                for s in self.slots:
                    s.cur = set(self.candidate[s.name])
                    if "names:" + s.name in self.candidate:
                        s.names = dict(self.candidate["names:" + s.name])
                return None
            if row in ("q", "exit"):
                self.in_config = False
                self.candidate = None
                return None
        if row in ("quit", "exit") and level >= 1:
            self.ctx = None
            return None
        if level == 0:
            self.ctx = None
            if re.match(r"^(interface \S+|vlan pool \S+|stp region-configuration)$", row):
                self.ctx = row
                return None
            batch = [s for s in self.slots if s.kind in ("hw-batch", "cs-vlan")]
            m = re.match(r"^(undo )?vlan (\d+)$", row) if self.huawei else re.match(r"^()vlan (\d+)$", row)
            if m and batch:
                vid = int(m.group(2))
                sets = self._sets()
                if m.group(1):
                    sets[batch[0].name].discard(vid)          # 'undo vlan N' deletes the VLAN altogether
                    self._names(batch[0]).pop(vid, None)
                else:
                    sets[batch[0].name].add(vid)              # entering the block creates the VLAN
                    self.ctx = row
                return None
        if level >= 1 and self.ctx and re.match(r"^vlan \d+$", self.ctx):
            batch = [s for s in self.slots if s.kind in ("hw-batch", "cs-vlan")][0]
            vid = int(self.ctx.split()[1])
            if row.startswith("name "):
                self._names(batch)[vid] = row[5:]
                return None
            if row in ("undo name", "no name"):
                self._names(batch).pop(vid, None)
                return None
            return self._anomaly("unknown-command", level, row)
        if row.startswith("name ") or row in ("no name", "undo name"):
            # a VLAN name given outside its block: annet's flattening merges two equal 'vlan N' rows (the list entry and the
            # block header emitted by the cisco logic for a new named VLAN), which puts the block exit before the name.
            # VLAN names are outside C11 -- counted, not judged here (see DESIGN.md 10.2, observations)
            self.misplaced_names += 1
            return None
        sets = self._sets()
        for s in self.slots:
            if (s.ctx or None) != (self.ctx if level >= 1 else None):
                continue
            if self._apply(s, sets, row):
                return None
        if level >= 1 and any(row == e or row.startswith(e.split()[0]) for s in self.slots for e in s.extra):
            return None
        if level >= 1 and row.startswith(("undo port link-type", "no switchport mode", "switchport", "port link-type", "undo port")) \
                and not re.search(r"\d", row):
            return None
        return self._anomaly("unknown-command", level, row)

    def _apply(self, s, sets, row):
        cur = sets[s.name]
        p = s.prefix
        if s.kind.startswith("hw"):
            if row.startswith(p + " "):
                try:
                    cur |= hw_parse(row[len(p):].split())
                except ValueError:
                    return False
                return True
            if row.startswith("undo " + p + " ") or row == "undo " + p:
                rest = row[len("undo " + p):].split()
                if rest == ["all"]:
                    if s.kind not in ("hw-trunk", "hw-tagged", "hw-untagged"):
                        return False
                    cur.clear()
                    return True
                try:
                    cur -= hw_parse(rest)
                except ValueError:
                    return False
                return True
            if s.kind == "hw-instance" and row == "undo " + " ".join(p.split()[:2]):
                cur.clear()
                return True
            return False
        # cisco family
        if s.kind == "cs-trunk":
            if row == p + " none":
                cur.clear()
                return True
            m = re.match(r"^%s add ([\d,\- ]+)$" % re.escape(p), row)
            if m:
                cur |= cs_parse(m.group(1))
                return True
            m = re.match(r"^(?:no )?%s remove ([\d,\- ]+)$" % re.escape(p), row)
            if m:
                cur -= cs_parse(m.group(1))
                return True
            m = re.match(r"^%s ([\d,\- ]+)$" % re.escape(p), row)
            if m:
                cur.clear()
                cur |= cs_parse(m.group(1))
                return True
            return False
        m = re.match(r"^no %s ([\d,\- ]+)$" % re.escape(p), row)
        if m:
            gone = cs_parse(m.group(1))
            cur -= gone
            if s.kind == "cs-vlan":
                names = self._names(s)
                for vid in gone:
                    names.pop(vid, None)
            return True
        if s.kind == "cs-group" and row == "no " + p:
            cur.clear()
            return True
        m = re.match(r"^%s ([\d,\- ]+)$" % re.escape(p), row)
        if m:
            cur |= cs_parse(m.group(1))
            return True
        return False

    def _names(self, slot):
        if self.two_stage and self.candidate is not None:
            return self.candidate.setdefault("names:" + slot.name, dict(slot.names))
        return slot.names

    def _anomaly(self, kind, level, row):
        a = (self.executed, kind, level, row)
        self.anomalies.append(a)
        return a

    def drop_session(self):
        self.in_config = False
        self.candidate = None
        self.ctx = None


class VlanWorld:
    def __init__(self, ch, serial):
        from annet.annlib.netdev.views.hardware import HardwareView
        self.ch = ch
        self.faults, self.probes, self.events = {}, {}, []
        fam = ch.draw(2, "family")
        model = (HUAWEI_MODELS if fam == 0 else CISCO_MODELS)[ch.draw(2, "model")]
        self.hw = HardwareView(model, None)
        self.huawei = fam == 0
        self.tiny = not bool(self.hw.Catalyst) if not self.huawei else True
        self.inv = [F.InvDevice(200, model)]
        slots = []
        if self.huawei:
            # ('vlan pool' lists are keyed per line by their first id in huawei.rul and are not among the lists the
            #  property names; 'instance N vlan' uses the single-line logic)
            kinds = ["hw-trunk", "hw-trunk", "hw-tagged", "hw-untagged", "hw-batch", "hw-instance"]
        else:
            kinds = ["cs-trunk", "cs-trunk", "cs-vlan", "cs-group"]
        n = 1 + ch.draw(3, "nslots")
        used = set()
        for i in range(n):
            k = kinds[ch.draw(len(kinds), "slot-kind")]
            if k == "hw-trunk":
                s = Slot(k, "interface GE1/0/%d" % (i + 1), "port trunk allow-pass vlan", ["port link-type trunk"])
            elif k == "hw-tagged":
                s = Slot(k, "interface GE1/0/%d" % (i + 1), "port hybrid tagged vlan", ["port link-type hybrid"])
            elif k == "hw-untagged":
                s = Slot(k, "interface GE1/0/%d" % (i + 1), "port hybrid untagged vlan", ["port link-type hybrid"])
            elif k == "hw-batch":
                s = Slot(k, None, "vlan batch")
            elif k == "hw-pool":
                s = Slot(k, "vlan pool p%d" % i, "vlan")
            elif k == "hw-instance":
                s = Slot(k, "stp region-configuration", "instance %d vlan" % (i + 1))
            elif k == "cs-trunk":
                s = Slot(k, "interface Ethernet1/%d" % (i + 1), "switchport trunk allowed vlan", ["switchport mode trunk"])
            elif k == "cs-vlan":
                s = Slot(k, None, "vlan")
            else:
                s = Slot(k, None, "vlan group g%d vlan-list" % i)
            if s.name in used:
                continue
            used.add(s.name)
            slots.append(s)
        self.slots = slots
        self.universe_mode = ch.weighted([(3, "small"), (2, "mid"), (2, "sparse"), (1, "full")], "universe")
        self.dev = VlanDevice(self.hw, slots)
        for s in slots:
            s.cur = self.draw_set(ch, "init")
            if s.kind == "cs-vlan":
                s.style = ch.pick(["list+blocks", "blocks"], "cs-vlan-style")
            if s.kind in ("hw-batch", "cs-vlan"):
                s.names = self.draw_names(ch, s.cur, {})
        self.desired = {s.name: set(s.cur) for s in slots}
        self.desired_parts = {s.name: None for s in slots}
        self.desired_names = {s.name: dict(s.names) for s in slots}
        self.fetch_plan, self.deploy_plan = {}, {}
        self.received = {}
        self.cut_happened = set()
        self.cmd_hook = None
        self.last_generated = None

    def draw_set(self, ch, tag, base=None):
        mode = self.universe_mode
        if base is not None:
            how = ch.weighted([(2, "fresh"), (2, "add"), (2, "remove"), (2, "both"), (1, "empty"), (1, "disjoint")], tag + "-how")
        else:
            how = "fresh"
        if mode == "small":
            uni = list(range(2, 14))
        elif mode == "mid":
            uni = list(range(100, 180))
        elif mode == "sparse":
            uni = list(range(100, 400, 2)) + [4093, 4094]       # many one-element ranges: several chunks per command
        else:
            uni = None

        def rnd():
            if uni is not None:
                k = ch.draw(min(len(uni), 9 if mode != "sparse" else 40), tag + "-n")
                return set(ch.sample(uni, k, tag + "-pick"))
            if ch.draw(8, tag + "-whole") == 0:
                return set(range(2, 4095))                     # the whole range 2..4094
            s = set()
            for _ in range(ch.draw(5, tag + "-nr")):
                lo = ch.pick([2 + ch.draw(4000, tag + "-lo"), 4050 + ch.draw(45, tag + "-hi")], tag + "-where")
                s.update(range(lo, min(4095, lo + 1 + ch.draw(60, tag + "-len"))))
            return s
        if how == "fresh" or base is None:
            return rnd()
        if how == "empty":
            return set()
        if how == "disjoint":
            return rnd() - base
        if how == "add":
            return set(base) | rnd()
        if how == "remove":
            keep = set(x for x in sorted(base) if ch.draw(3, tag + "-keep") != 0)
            return keep
        keep = set(x for x in sorted(base) if ch.draw(3, tag + "-keep") != 0)
        return keep | rnd()

    def draw_names(self, ch, vset, old_names):
        names = {}
        for vid in sorted(vset)[:12]:
            r = ch.draw(6, "vlan-name")
            if r == 0:
                names[vid] = "n%d" % (vid % 7)
            elif r == 1 and vid in old_names:
                names[vid] = old_names[vid]
        return names

    def draw_desired(self, ch, slot):
        """new desired list for a slot: either a new set with a fresh splitting, or -- the common case on real
        trunks -- the device's own lines kept verbatim with some lines dropped and/or new lines appended"""
        how = ch.weighted([(4, "set"), (2, "drop-lines"), (2, "add-lines"), (2, "drop+add-lines")], "desired-how")
        dev_parts = [list(p) for p in slot.device_parts(ch)]
        if how == "set" or not dev_parts or slot.kind == "hw-instance" or (slot.kind == "cs-vlan" and slot.style == "blocks"):
            vset = self.draw_set(ch, "new", base=slot.cur)
            self.desired[slot.name] = vset
            self.desired_parts[slot.name] = None
            return how
        keep = dev_parts
        if how in ("drop-lines", "drop+add-lines"):
            keep = [p for p in dev_parts if ch.draw(3, "keep-line") != 0]
        extra = []
        if how in ("add-lines", "drop+add-lines"):
            add = self.draw_set(ch, "extra") - slot.cur
            extra = slot.partition(ch, add, "extra-split")
        parts = keep + extra
        self.desired_parts[slot.name] = parts
        self.desired[slot.name] = set(v for p in parts for (a, b) in p for v in range(a, b + 1))
        self.probe("desired_keeps_device_lines")
        return how

    # ---- protocol used by worlds/fakes
    def fire(self, kind):
        self.faults[kind] = self.faults.get(kind, 0) + 1

    def probe(self, kind):
        self.probes[kind] = self.probes.get(kind, 0) + 1

    def event(self, *a):
        self.events.append((len(self.events), round(simloop._installed.clock.now, 3), "world") + a)

    def show_config(self, inv):
        return self.dev.show_config(self.ch, self.tiny)

    def fetch_files(self, inv, paths):
        return {}

    def gen_lines(self):
        """desired config as the generator yields it: own splitting of every list"""
        out = odict()
        self.last_generated = out
        for s in self.slots:
            if self.desired_parts.get(s.name) is not None:
                lines = s.render_parts(self.desired_parts[s.name], self.tiny)
            else:
                lines = s.render(self.ch, s.listed(self.desired[s.name], self.desired_names.get(s.name, {})), "gen-split", self.tiny)
            tgt = out.setdefault(s.ctx, [])
            for e in s.extra:
                if e not in tgt:
                    tgt.append(e)
            tgt.extend(lines)
        for s in self.slots:
            for vid in sorted(self.desired_names.get(s.name, {})):
                out.setdefault("vlan %d" % vid, []).append("name %s" % self.desired_names[s.name][vid])
        return out

    async def play(self, inv, cmds, args):
        device = self.dev
        plan = self.deploy_plan.get(inv.id, {})
        cl = list(cmds)
        self.received[inv.id] = [(getattr(c, "level", 0), c.cmd) for c in cl]
        cut = plan.get("cut")
        if cut is not None:
            cut = cut % (len(cl) + 1)
        for k, c in enumerate(cl):
            if cut is not None and k == cut:
                self.fire("deploy_cut")
                self.cut_happened.add(inv.id)
                self.event("cut", inv.hostname, k, len(cl))
                device.drop_session()
                raise F.DeployCut("connection lost before command %d" % k)
            await asyncio.sleep(0.05)
            a = device.exec(getattr(c, "level", 0), c.cmd)
            self.event("cmd", inv.hostname, k, getattr(c, "level", 0), c.cmd, a[1] if a else "ok")
            if self.cmd_hook:
                self.cmd_hook(k, c)
        if device.in_config:
            device.drop_session()
        return "ok"


def make_vlan_generator(world, serial):
    from annet.generators import PartialGenerator
    if world.huawei:
        acl = """
        interface *
            port link-type
            port trunk allow-pass vlan
            port hybrid tagged vlan
            port hybrid untagged vlan
        vlan batch
        vlan */\\d+/
            name
        vlan pool *
            vlan *
        stp region-configuration
            instance *
        """
    else:
        acl = """
        interface *
            switchport mode
            switchport trunk allowed vlan
        vlan
            name
        vlan group * vlan-list
        """

    def run(self, device):
        for ctx, lines in world.gen_lines().items():
            if ctx:
                with self.block(ctx):
                    for l in lines:
                        yield l
            else:
                for l in lines:
                    yield l

    def acl_f(self, device):
        return acl
    cls = type("VlanGen%d" % serial, (PartialGenerator,), {"run": run, "acl": acl_f})
    return cls(F.SimStorage())


class Engine:
    name = "vlan"
    spec = "vlan"
    property_id = "C11"
    runs = {"quick": 5000, "thorough": 3000000}
    wall = {"quick": 300, "thorough": 900}
    selftest_n = {"quick": 24, "thorough": 96}
    chunk = 50
    isolate = True      # every run in a child forked from the pristine engine process (annet keeps process-global caches)
    minimise_budget = {"quick": 600, "thorough": 3000}
    rule = ("one run = one seeded history of the real `annet deploy` on the shipped huawei (CE / non-CE) or cisco (Catalyst / "
            "Nexus) rulebook: 1-3 VLAN lists (trunk allow-pass, hybrid tagged/untagged, vlan batch, vlan pool, stp instance; "
            "switchport trunk allowed vlan, vlan, vlan group) held by the device as SETS and rendered by its own range writer "
            "split over 1-4 lines, the desired sets rendered by the generator with an independent splitting; 2-4 steps of "
            "S_i -> S_{i+1} (small universe / mid / full range; add-only, remove-only, both, empty, disjoint), deploys possibly "
            "cut at a drawn command. Non-trivial = a deploy delivered >=1 VLAN command. Distinct = SHA-256 over (model, slot "
            "kinds, per-step set sizes and line counts, cut positions).")
    components_real = ["annet.api.adeploy, gen.old_new, generator framework, ACL", "shipped huawei.rul / cisco.rul / nexus.rul and "
                       "annet.rulebook.huawei.vlandb / cisco.vlandb logic", "annet.annlib.lib expand/collapse helpers",
                       "vendor formatters, apply_deploy_rulebook"]
    components_stub = ["inventory, fetcher, deploy driver transports", "the device (VlanDevice: set-valued model with its own range "
                       "parser and writer)", "event loop (virtual time)"]
    assumptions = ["VLAN 1 and the Huawei 'undo port trunk allow-pass vlan 1' default line are left out of the universe",
                   "'no <prefix> remove L' / 'no <prefix> L' remove L, '<prefix> add L' / '<prefix> L' add L, '<prefix> none' and "
                   "'undo <prefix> all' clear the list", "Huawei vlan N blocks and Cisco vlan N blocks are not generated"]

    def __init__(self, tier="quick"):
        self.tier = tier
        self.args = {}
        self._capfile = None

    def setup(self):
        env.init()
        F.install()
        simloop.install()
        import annet.api as api
        from annet import cli_args, filtering
        self.api, self.cli_args = api, cli_args
        self.filterer = filtering.filterer_connector.get()
        # compile the shipped rulebooks once, in the engine process: run children are forked from it
        from annet import rulebook
        from annet.annlib.netdev.views.hardware import HardwareView
        for m in HUAWEI_MODELS + CISCO_MODELS:
            rulebook.get_rulebook(HardwareView(m, None))

    @contextlib.contextmanager
    def _captured(self):
        if self._capfile is None:
            self._capfile = tempfile.TemporaryFile("w+")
        f = self._capfile
        f.seek(0)
        f.truncate()
        with contextlib.redirect_stdout(f), contextlib.redirect_stderr(f):
            yield f

    def deploy(self, world, gen):
        args = self.cli_args.DeployOptions(query=F.SimQuery(), config="running", parallel=1, tolerate_fails=True, indent="  ",
                                           no_ask_deploy=True, no_check_diff=True, no_progress=True)
        loader = F.SimLoader(world.inv, lambda d: ([gen], []))
        deployer = self.api.Deployer(args)
        world.received = {}
        world.cut_happened = set()
        with self._captured():
            try:
                rc = simloop.run(self.api.adeploy(args, loader, deployer, self.filterer, F.SimFetcher(), F.SimDeployDriver()))
            except HarnessError:
                raise
            except Exception as e:  # pylint: disable=broad-except
                from .cli import AnnetCrashed
                raise AnnetCrashed(e)
        return rc, deployer

    def run(self, ch):
        from .cli import AnnetCrashed, V
        serial = ch.draw(1000000, "serial")
        world = VlanWorld(ch, serial)
        F.WORLD = world
        gen = make_vlan_generator(world, serial)
        simloop._installed.clock.now = 0.0
        violation = None
        steps_log = []
        try:
            try:
                violation = self._history(ch, world, gen, steps_log)
            except AnnetCrashed as e:
                violation = V("annet-raised", "%s:%s" % (type(e.exc).__name__, e.where), exception=repr(e.exc)[:400],
                              device={s.name: sorted(s.cur) for s in world.slots},
                              desired={k: sorted(v) for k, v in world.desired.items()})
        finally:
            F.WORLD = None
        h = hashlib.sha256(repr((world.hw.model, [s.kind for s in world.slots], steps_log)).encode())
        scenario = {"model": world.hw.model, "slots": [s.name for s in world.slots], "universe": world.universe_mode,
                    "steps": steps_log}
        return {"violation": violation, "nontrivial": any(s.get("vlan_commands", 0) > 0 for s in steps_log),
                "sig": int.from_bytes(h.digest()[:8], "big"), "sim_s": simloop._installed.clock.now, "steps": len(world.events),
                "faults": world.faults, "probes": world.probes, "strategy": world.hw.model, "scenario": scenario,
                "trace": world.events}

    def _history(self, ch, world, gen, steps_log):
        from .cli import V
        nsteps = 2 + ch.draw(3, "nsteps")
        for step in range(nsteps):
            last = step == nsteps - 1
            hows = {}
            for s in world.slots:
                hows[s.name] = world.draw_desired(ch, s)
                if s.kind in ("hw-batch", "cs-vlan"):
                    world.desired_names[s.name] = world.draw_names(ch, world.desired[s.name], s.names)
            world.deploy_plan = {}
            world.fetch_plan = {}
            if not last and ch.draw(3, "cut") == 0:
                world.deploy_plan[world.inv[0].id] = {"cut": ch.draw(32, "cut-at")}
            pre = world.dev.snapshot()
            pre_text = world.show_config(None).split("\n")
            common = {n: pre[n] & world.desired[n] for n in pre}
            world.dev.anomalies = []
            found = []

            def hook(k, c):
                if found:
                    return
                sets = world.dev._sets()
                for n, keep in common.items():
                    cur = sets[n]
                    if not keep <= cur:
                        found.append(V("common-vlan-removed", self._key(world, n, c.cmd), step=step, slot=n, command_index=k,
                                       command=c.cmd, lost=sorted(keep - cur)[:20], old=sorted(pre[n]),
                                       new=sorted(world.desired[n]), commands=world.received.get(world.inv[0].id),
                                       device_config_before=pre_text, generated=world.last_generated))
                        return
            world.cmd_hook = hook
            ev0 = len(world.events)
            rc, deployer = self.deploy(world, gen)
            world.cmd_hook = None
            got = world.received.get(world.inv[0].id, [])
            entry = {"step": step, "rc": rc, "commands": len(got),
                     "vlan_commands": sum(1 for (_l, c) in got if re.search(r"vlan", c) and re.search(r"\d", c)),
                     "sizes": {n: (len(pre[n]), len(world.desired[n])) for n in pre}, "how": hows,
                     "cut": world.deploy_plan.get(world.inv[0].id, {}).get("cut")}
            steps_log.append(entry)
            if found:
                return found[0]
            if world.dev.anomalies:
                a = world.dev.anomalies[0]
                return V("device-rejected-command", a[1], step=step, command=a[3], level=a[2], commands=got,
                         device_config=world.show_config(None).split("\n"))
            if world.cut_happened:
                world.probe("deploy_cut_survived")
                continue
            post = world.dev.snapshot()
            for n in post:
                if post[n] != world.desired[n]:
                    return V("final-set-differs", self._key(world, n, ""), step=step, slot=n, old=sorted(pre[n]),
                             new=sorted(world.desired[n]), got=sorted(post[n]), missing=sorted(world.desired[n] - post[n])[:20],
                             extra=sorted(post[n] - world.desired[n])[:20], commands=got)
            for sl in world.slots:
                if sl.kind in ("hw-batch", "cs-vlan") and sl.names != world.desired_names[sl.name]:
                    world.probe("vlan_names_differ_after_deploy")       # outside C11: observed, not judged
                    sl.names = dict(world.desired_names[sl.name])
            world.probe("deploy_converged")
        return None

    @staticmethod
    def _key(world, slot_name, cmd):
        kind = slot_name.split("|")[0]
        if cmd.endswith(" all"):
            return kind + ":undo-all"
        return kind
