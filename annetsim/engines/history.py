"""C20 -- results are independent of processing history; inputs are left unmodified
(DESIGN.md 5, C20).

A pool worker is a long-lived process: compiled rulebooks, compiled ACLs and anything a logic
function mutated survive from job to job.  The simulator controls the history (which jobs ran
before, in which order, chosen by seed or by the pool scheduler) and compares every result
with the result of the same job in a pristine fork ("restart with nothing surviving").
"""
import hashlib
import os
import pickle
import random
import traceback

from ..choices import Choices

from .. import env, seams, simloop
from ..kernel import Sim, FakeTime, Deadlock, StepCap, HarnessError
from ..fakemp import FakeMP


# ----------------------------------------------------------------------------- job table
SYN_LOGICS = ["simlogic.scribble", "simlogic.counting", "simlogic.demote", "common.permanent",
              "common.default_instead_undo", "common.undo_redo", "common.ignore_changes"]

ALT_MODELS = {"huawei": ["Huawei CE6870", "Huawei NE40E", "Huawei S5700", "Huawei Quidway S2326"],
              "cisco": ["Cisco Catalyst 3750"], "nexus": ["Cisco Nexus 3172"], "arista": ["Arista DCS-7050"]}

SYN_VENDORS = [("huawei", "Huawei CE0000 SIM-H%d"), ("cisco", "Cisco Catalyst SIM-H%d"), ("arista", "Arista SIM-H%d")]


def _syn_rulebook_text(rng, rev):
    """small rulebook whose leaf rules use state-leaking logic functions"""
    lines = []
    words = ["alpha", "beta", "gamma", "delta", "eps", "zeta"]
    rng.shuffle(words)
    for w in words[:rng.randint(3, 5)]:
        if rng.random() < 0.4:
            lines.append("%s *" % w)
            for c in rng.sample(["one", "two", "three", "four"], rng.randint(1, 3)):
                lines.append("    %s * %%logic=%s" % (c, rng.choice(SYN_LOGICS)))
        else:
            lines.append("%s * %%logic=%s" % (w, rng.choice(SYN_LOGICS)))
    return "\n".join(lines), words


def _syn_tree(rng, text):
    from collections import OrderedDict as odict
    t = odict()
    cur = None
    for line in text.split("\n"):
        body = line.strip().split(" %")[0]
        head = body.split()[0]
        if not line.startswith(" "):
            cur = None
            for _ in range(rng.randint(0, 2)):
                row = "%s k%d v%d" % (head, rng.randint(1, 3), rng.randint(1, 3))
                key = " ".join(row.split()[:2])
                if any(" ".join(r.split()[:2]) == key for r in t):
                    continue
                t[row] = odict()
                cur = t[row]
        elif cur is not None and rng.random() < 0.7:
            row = "%s k%d v%d" % (head, rng.randint(1, 2), rng.randint(1, 3))
            key = " ".join(row.split()[:2])
            if not any(" ".join(r.split()[:2]) == key for r in cur):
                cur[row] = odict()
    return t


def _acl_text_for(rng, trees):
    """ACL over the first words of the rows: overlapping rules for the same block head ('w ~' and 'w */[A-Za-z].*/'),
    each listing the first words of the child rows with independently drawn %cant_delete flags, so that which rule
    (and which merged child) governs a row depends on the row -- and must not depend on what was matched before"""
    firsts, kids, seconds = [], {}, {}
    for t in trees:
        for row, sub in t.items():
            ws = row.split()
            if ws[0] in ("undo", "no") and len(ws) > 1:
                ws = ws[1:]                  # a negated row is covered through the reverse form of the rule for its command
            w = ws[0]
            if not w.replace("-", "").isidentifier():
                continue
            if len(ws) > 2 and ws[1].replace("-", "").isidentifier() and ws[1] not in seconds.setdefault(w, []):
                seconds[w].append(ws[1])
            if w not in firsts:
                firsts.append(w)
            for crow in sub:
                cw = crow.split()[0]
                if cw.replace("-", "").isidentifier() and cw not in kids.setdefault(w, []):
                    kids[w].append(cw)
    lines = []
    for w in firsts:
        if rng.random() < 0.2:
            continue
        cd = rng.choice(["", "", " %cant_delete=1", " %cant_delete=0"])
        lines.append("%s%s" % (w, cd))
        variants = ["%s ~" % w]
        if kids.get(w) and rng.random() < 0.7:
            variants.append("%s */[A-Za-z].*/" % w)
        # close, overlapping rules of equal priority: 'w second ~' next to 'w *'
        for sw in seconds.get(w, [])[:3]:
            if rng.random() < 0.5:
                lines.append("%s %s ~%s" % (w, sw, rng.choice(["", " %cant_delete=1"])))
        if seconds.get(w) and rng.random() < 0.7:
            lines.append("%s *%s" % (w, rng.choice(["", " %cant_delete=1", " %cant_delete=0"])))
        for pat in variants:
            lines.append("%s%s" % (pat, cd))
            for cw in kids.get(w, [])[:6]:
                if rng.random() < 0.6:
                    lines.append("    %s ~%s" % (cw, rng.choice(["", " %cant_delete=1", " %cant_delete=0"])))
                    lines.append("    %s%s" % (cw, rng.choice(["", " %cant_delete=1", " %cant_delete=0"])))
            lines.append("    ~ %global")
    return "\n".join(lines)


def build_jobs():
    """deterministic job table (independent of VERIF_SEED): the 'world' histories are drawn over"""
    from annet.annlib.netdev.views.hardware import HardwareView
    from annet.annlib.rbparser.acl import compile_acl_text
    from annet.annlib.rbparser.ordering import compile_ordering_text
    from annet.rulebook.deploying import compile_deploying_text
    from annet.rulebook.patching import compile_patching_text
    from annet.vendors import registry_connector
    provider = env.init()
    rng = random.Random(20260926)
    jobs = []
    corpus = env.load_corpus()
    per_vendor_trees = {}
    for s in corpus:
        per_vendor_trees.setdefault(s["vendor"], []).extend([s["old"], s["new"]])
    vendor_acl = {}
    for vendor, trees in sorted(per_vendor_trees.items()):
        text = _acl_text_for(rng, trees)
        vendor_acl[vendor] = text
    for s in corpus:
        for direction in ("fwd", "rev"):
            old, new = (s["old"], s["new"]) if direction == "fwd" else (s["new"], s["old"])
            jobs.append({"kind": "corpus", "name": "%s %s" % (s["name"], direction), "hw": s["hw"], "old": old, "new": new,
                         "acl": None})
        if rng.random() < 0.35 and len(s["new"]) >= 2:
            # the job hands a reference tracker to the patch step (definitions must be ordered before their references)
            jobs.append({"kind": "corpus-ref", "name": "%s ref-tracked" % s["name"], "hw": s["hw"], "old": s["old"],
                         "new": s["new"], "acl": None, "ref": True})
        # the same configurations on other hardware models of the vendor (rulebook templates branch on the model)
        for model in ALT_MODELS.get(s["vendor"], []):
            if rng.random() < 0.5:
                hw2 = HardwareView(model, None)
                jobs.append({"kind": "corpus-model", "name": "%s @%s" % (s["name"], model), "hw": hw2, "old": s["old"],
                             "new": s["new"], "acl": None})
        if s["vendor"] in ("juniper", "ribbon", "nokia"):
            continue
        text = _acl_text_for(rng, [s["old"], s["new"]])
        jobs.append({"kind": "acl", "name": "%s acl" % s["name"], "hw": s["hw"], "old": s["old"], "new": s["new"],
                     "acl": text})
        if s["vendor"] in vendor_acl:
            # one compiled ACL object shared by all samples of the vendor, both directions
            jobs.append({"kind": "acl-shared", "name": "%s vendor-acl rev" % s["name"], "hw": s["hw"], "old": s["new"],
                         "new": s["old"], "acl": vendor_acl[s["vendor"]]})
            if rng.random() < 0.5:
                jobs.append({"kind": "acl-shared", "name": "%s vendor-acl fwd" % s["name"], "hw": s["hw"], "old": s["old"],
                             "new": s["new"], "acl": vendor_acl[s["vendor"]]})
    # VLAN lists on cisco-family trunks: few distinct line texts, so that the same lines recur across jobs and models
    from collections import OrderedDict as odict
    pool = ["switchport trunk allowed vlan 1-5", "switchport trunk allowed vlan add 10", "switchport trunk allowed vlan add 20-25",
            "switchport trunk allowed vlan add 30,40"]
    for model in ("Cisco Catalyst 3750", "Cisco Nexus 3172"):
        hw = HardwareView(model, None)
        for n in range(14):
            first = pool[0] if rng.random() < 0.8 else "switchport trunk allowed vlan 2,7"
            def tree(lines):
                return odict([("interface Ethernet1/1", odict([("switchport mode trunk", odict())] + [(l, odict()) for l in lines]))])
            old_lines = [first] + [l for l in pool[1:] if rng.random() < 0.6]
            new_lines = [first] + [l for l in old_lines[1:] if rng.random() < 0.5] + [l for l in pool[1:] if l not in old_lines and rng.random() < 0.3]
            if old_lines == new_lines:
                new_lines = new_lines[:-1] if len(new_lines) > 1 else new_lines + [pool[1]]
            jobs.append({"kind": "vlan-lists", "name": "trunk %s #%d" % (model.split()[1], n), "hw": hw, "old": tree(old_lines),
                         "new": tree(new_lines), "acl": None})
    for k in range(18):
        vendor, model = SYN_VENDORS[k % len(SYN_VENDORS)]
        hw = HardwareView(model % k, None)
        rev = registry_connector.get()[vendor].reverse
        text, _ = _syn_rulebook_text(rng, rev)
        rb = {"patching": compile_patching_text(text, vendor), "ordering": compile_ordering_text("", vendor),
              "deploying": compile_deploying_text("", vendor)}
        provider.register(hw, rb)
        # the same vendor-neutral ACL text for every synthetic world: it gets compiled once per vendor
        acl = "\n".join("%s ~\n    one ~\n    ~ %%global" % w for w in ["alpha", "beta", "gamma", "delta"])
        trees = [_syn_tree(rng, text) for _ in range(4)]
        for a in range(4):
            for b in range(4):
                if a != b:
                    jobs.append({"kind": "synthetic", "name": "syn%d %d->%d" % (k, a, b), "hw": hw, "old": trees[a],
                                 "new": trees[b], "acl": acl if (a + b) % 3 == 0 else None, "rb_text": text})
    return jobs


def _digest(snap):
    return hashlib.sha256(repr(snap).encode()).hexdigest()[:20]


def compute(job):
    """the computation a worker performs for one device"""
    import annet.api as api
    from annet import patching

    class Dev:
        pass
    d = Dev()
    d.hw = job["hw"]
    try:
        old, new, acl = job["old"], job["new"], job["acl"]
        if acl is not None:
            # ACL texts are compiled where a worker compiles them -- inside the job; annet's own lru_cache makes the
            # compiled object the one shared by every job with the same (text, vendor)
            from annet.annlib.rbparser.acl import compile_acl_text
            acl = compile_acl_text(acl, job["hw"].vendor)
            old = patching.apply_acl(old, acl)
            new = patching.apply_acl(new, acl, exclusive=False)
        ref_track = None
        if job.get("ref"):
            from collections import OrderedDict as _od
            from annet.reference import RefTracker

            class RefGen:
                pass

            class DefGen:
                pass
            rows = list(new.items())
            ref_track = RefTracker()
            ref_track.add(RefGen, DefGen)
            ref_track.config(RefGen, _od(rows[:len(rows) // 2]))
            ref_track.config(DefGen, _od(rows[len(rows) // 2:]))
        # the compiled rulebook as this process hands it out (it may be compiled right here, after whatever the
        # process compiled before), and the patch tree with everything it carries per row (context, sort keys)
        from annet import rulebook
        rb_digest = _digest(env.snapshot(rulebook.get_rulebook(job["hw"])))
        diff, pt = api._diff_and_patch(d, old, new, acl, None, False, ref_track=ref_track)
        cmds = env.cmd_list(job["hw"], pt)
        ordered = env.canon_tree(patching.Orderer.from_hw(job["hw"]).order_config(job["new"]))
        return ("OK", cmds, env.canon_diff(diff), ordered, ("patch-tree", _digest(env.snapshot(pt.to_json()))),
                ("rulebook", rb_digest))
    except MemoryError:
        return ("EXC", "MemoryError", "address-space limit of the simulated worker reached")
    except Exception as e:  # pylint: disable=broad-except
        return ("EXC", type(e).__name__, str(e)[:160])


def _fork_compute(jobs, indices):
    """each index computed in its own child forked from this (pristine) process"""
    out = {}
    batch = 16
    for lo in range(0, len(indices), batch):
        running = []
        for idx in indices[lo:lo + batch]:
            r, w = os.pipe()
            pid = os.fork()
            if pid == 0:
                os.close(r)
                try:
                    try:
                        from ..runner import limit_resources
                        limit_resources(3, 120)
                        data = pickle.dumps(compute(jobs[idx]))
                    except BaseException as e:  # pylint: disable=broad-except
                        data = pickle.dumps(("CHILD-EXC", repr(e), traceback.format_exc()[-800:]))
                    off = 0
                    while off < len(data):
                        off += os.write(w, data[off:off + 65536])
                finally:
                    os._exit(0)
            os.close(w)
            running.append((idx, pid, r))
        for idx, pid, r in running:
            chunks = []
            while True:
                b = os.read(r, 1 << 20)
                if not b:
                    break
                chunks.append(b)
            os.close(r)
            os.waitpid(pid, 0)
            res = pickle.loads(b"".join(chunks))
            if res and res[0] == "CHILD-EXC":
                raise HarnessError("pristine child failed for job %d: %s" % (idx, res[1:]))
            out[idx] = res
    return out


class HistMP(FakeMP):
    def describe(self, item):
        t = getattr(item, "type", None)
        if t is not None:
            return "task(%s,%r)" % (getattr(t, "value", t), getattr(item, "payload", None))
        if isinstance(item, tuple) and len(item) == 4:
            return "result(%s,%r)" % (item[0], getattr(item[1], "payload", None))
        return type(item).__name__


class Engine:
    name = "history"
    spec = "history"
    property_id = "C20"
    runs = {"quick": 800, "thorough": 60000}
    wall = {"quick": 300, "thorough": 1200}
    selftest_n = {"quick": 6, "thorough": 24}
    chunk = 10
    minimise_budget = {"quick": 150, "thorough": 600}
    rule = ("one run = one seeded history of 4..40 jobs (diff + patch + ordered config of one device) executed in ONE "
            "process, either sequentially or submitted to the real Parallel under fake multiprocessing where the seeded "
            "scheduler decides which jobs share a worker and in which order; jobs are drawn from a fixed table: the "
            "shipped (before,after) corpus in both directions, the same with compiled ACL objects shared between jobs, "
            "and synthetic rulebooks whose logic functions write to their rule/diff arguments. Every result (commands, diff, ordered config, digest of the serialised patch tree and of the compiled rulebook) is compared "
            "with the result of the same job in a pristine fork. Non-trivial = history of >=3 jobs with >=2 distinct jobs. "
            "Distinct = distinct SHA-256 of the executed job-index sequence.")
    components_real = ["annet.api._diff_and_patch (make_diff, make_pre, make_patch, Orderer)", "annet.patching.apply_acl / "
                       "match_row_to_acl with shared compiled ACL objects", "Orderer.order_config", "shipped rulebooks and "
                       "logic functions via DefaultRulebookProvider", "lru_cache / provider caches (the state under test)",
                       "annet.parallel.Parallel (pool-scheduled histories)", "os.fork (pristine reference)"]
    components_stub = ["multiprocessing/time in pool-scheduled histories (FakeMP)", "device objects (only .hw is read)"]
    assumptions = ["the job table is fixed per repository state; the pristine reference is computed by forking before any "
                   "job has run in the process", "simulated pool workers share one interpreter, which is the most "
                   "adversarial history the property allows (any sequence of other devices in the same process)"]

    def __init__(self, tier="quick"):
        self.tier = tier
        self.args = {}
        self.jobs = None
        self.fresh = None

    def setup(self):
        if self.jobs is not None:
            return
        env.init()
        import annet.parallel as P
        self.P = P
        simloop.install()
        self.jobs = build_jobs()
        # pristine references: nothing has been computed in this process yet
        self.fresh = _fork_compute(self.jobs, list(range(len(self.jobs))))
        self.by_kind = {}
        for i, j in enumerate(self.jobs):
            self.by_kind.setdefault(j["kind"], []).append(i)
        self.by_vendor = {}
        for i, j in enumerate(self.jobs):
            self.by_vendor.setdefault(j["hw"].vendor, []).append(i)
        # pristine snapshots of inputs are taken lazily per job (before its first execution here)
        self.rb_pristine = {}

    # ------------------------------------------------------------------ one job with its oracle
    def _exec(self, idx, faults):
        from annet import rulebook
        job = self.jobs[idx]
        hw = job["hw"]
        before_in = (env.snapshot(job["old"]), env.snapshot(job["new"]))
        rb = rulebook.get_rulebook(hw)
        if hw.model not in self.rb_pristine:
            # first time this process sees the rulebook: it is pristine only if nothing ran before; the reference
            # snapshot therefore comes from the run-independent table computed in setup when available
            self.rb_pristine[hw.model] = env.snapshot(rb)
        res = compute(job)
        v = None
        if (env.snapshot(job["old"]), env.snapshot(job["new"])) != before_in:
            v = ("input-mutated", job["kind"], {"job": job["name"]})
        elif env.snapshot(rulebook.get_rulebook(hw)) != self.rb_pristine[hw.model]:
            v = ("rulebook-mutated", job["kind"], {"job": job["name"], "hw": hw.model})
        elif res != self.fresh[idx]:
            v = ("history-dependent-result", job["kind"],
                 {"job": job["name"], "differs_in": [n for n, a, b in zip(
                     ("status", "commands", "diff", "ordered config", "patch tree (rows, contexts, sort keys)",
                      "compiled rulebook handed out"), self.fresh[idx], res) if a != b] or ["length"],
                  "fresh": _short(self.fresh[idx]), "here": _short(res)})
        return res, v

    def run(self, ch):
        """every history runs in its own child forked from this (pristine) process, so that the verdict of a
        run never depends on the runs a batch worker executed before it"""
        r, w = os.pipe()
        pid = os.fork()
        if pid == 0:
            os.close(r)
            try:
                try:
                    from ..runner import limit_resources
                    limit_resources(4, 60)      # an ordinary history needs about one CPU second
                    import signal

                    class _Limit(BaseException):
                        pass

                    def _on_xcpu(_sig, _frm):
                        raise _Limit()
                    signal.signal(signal.SIGXCPU, _on_xcpu)
                    try:
                        res = self._run_inner(ch)
                    except _Limit:
                        # the simulated worker ran into its CPU limit: work that explodes along a history is history
                        # dependence (every job takes well under a second in a fresh process)
                        res = self._limit_violation(ch, "CPU limit")
                    data = pickle.dumps(("OK", res, list(ch.log)))
                except HarnessError as e:
                    data = pickle.dumps(("HARNESS", str(e), None))
                except BaseException as e:  # pylint: disable=broad-except
                    data = pickle.dumps(("HARNESS", "history child crashed: %r\n%s" % (e, traceback.format_exc()[-1500:]), None))
                off = 0
                while off < len(data):
                    off += os.write(w, data[off:off + 65536])
            finally:
                os._exit(0)
        os.close(w)
        chunks = []
        while True:
            b = os.read(r, 1 << 20)
            if not b:
                break
            chunks.append(b)
        os.close(r)
        _pid, status = os.waitpid(pid, 0)
        if not chunks:
            raise HarnessError("history child died without an answer (status %r)" % (status,))
        tag, res, log = pickle.loads(b"".join(chunks))
        if tag != "OK":
            raise HarnessError(res)
        ch.log[:] = log
        return res

    def _limit_violation(self, ch, why):
        return {"violation": {"clause": "work-explodes-along-history", "key": "resource-limit",
                              "detail": {"why": why, "limit": "60 CPU seconds / 4 GB for one history; every job of the table "
                                         "takes well under a second in a fresh process"}},
                "nontrivial": True, "sig": 0, "sim_s": 0.0, "steps": 0, "faults": {}, "probes": {}, "strategy": "limit",
                "scenario": {"note": "history cut short by the resource limit"}, "trace": []}

    def _run_inner(self, ch):
        mode = ch.weighted([(3, "sequential"), (1, "pool")], "mode")
        length = 4 + ch.draw(12, "len") if ch.draw(4, "long") else 12 + ch.draw(28, "len")
        focus = ch.draw(3, "focus")
        kinds = sorted(self.by_kind)
        vendors = sorted(self.by_vendor)
        fv = vendors[ch.draw(len(vendors), "vendor")]
        seq = []
        for _ in range(length):
            if seq and ch.draw(6, "repeat") == 0:
                seq.append(seq[ch.draw(len(seq), "which")])
                continue
            if focus == 1:
                pool = self.by_vendor[fv]
            elif focus == 2:
                pool = self.by_kind[kinds[ch.draw(len(kinds), "kind")]]
            else:
                pool = range(len(self.jobs))
            seq.append(pool[ch.draw(len(pool), "job")])
        faults, probes = {}, {}
        violation = None
        trace = []
        executed = []
        sim_s = 0.0
        steps = 0
        if mode == "sequential":
            for pos, idx in enumerate(seq):
                res, v = self._exec(idx, faults)
                executed.append(idx)
                trace.append((pos, 0.0, "proc", "job", idx, self.jobs[idx]["name"], res[0]))
                if v:
                    violation = {"clause": v[0], "key": v[1], "detail": dict(v[2], position=pos,
                                 previous=[self.jobs[i]["name"] for i in seq[max(0, pos - 4):pos]])}
                    break
        else:
            violation, sim_s, steps = self._pool_history(ch, seq, executed, trace, faults, probes)
        if len(set(executed)) < len(executed):
            probes["job_repeated_in_history"] = 1
        if len(set(self.jobs[i]["hw"].vendor for i in executed)) > 1:
            probes["vendors_mixed_in_history"] = 1
        for i in executed:
            probes["kind_" + self.jobs[i]["kind"]] = probes.get("kind_" + self.jobs[i]["kind"], 0) + 1
        h = hashlib.sha256(repr(executed).encode()).digest()
        return {"violation": violation, "nontrivial": len(executed) >= 3 and len(set(executed)) >= 2,
                "sig": int.from_bytes(h[:8], "big"), "sim_s": sim_s, "steps": steps, "faults": faults, "probes": probes,
                "strategy": mode, "scenario": {"mode": mode, "history": [self.jobs[i]["name"] for i in seq]},
                "trace": trace}

    # ------------------------------------------------------------------ pool-scheduled history
    def _pool_history(self, ch, seq, executed, trace, faults, probes):
        P = self.P
        ids = []
        for n, idx in enumerate(seq):
            ids.append("%d:%d" % (n, idx))
        par = 2 + ch.draw(4, "parallel")
        max_tasks = ch.pick([0, 2, 3, 5, 25], "max_tasks")
        cfg = {"feeder_delay": [0.0, 0.01], "start_delay": [0.0, 0.05], "exit_delay": [0.0, 0.05], "stall_den": 0}
        sim = Sim(ch, max_steps=40000, strategy={"kind": "uniform"}, time_limit=100000.0)
        mp = HistMP(sim, cfg)
        found = []
        outcome = {}

        def job_fn(dev_id):
            idx = int(dev_id.split(":")[1])
            sim.yield_()
            res, v = self._exec(idx, faults)
            executed.append(idx)
            sim.log("job", idx, res[0])
            if v and not found:
                found.append((v, list(executed)))
            return res

        def parent():
            try:
                ok, fail = P.Parallel(job_fn).tune(parallel=par, max_tasks=max_tasks).run(ids)
                outcome["ok"], outcome["fail"] = ok, fail
            except BaseException as e:  # pylint: disable=broad-except
                if type(e).__name__ == "Killed":
                    raise
                outcome["exc"] = e
        saved = seams.bind(P, sim, fake_mp=mp, fake_time=FakeTime(sim, __import__("time")),
                           fake_os=seams.OsProxy(sim, os), require=("mp", "time"))
        try:
            sim.spawn("parent", parent)
            end = None
            try:
                sim.run()
            except (Deadlock, StepCap) as e:
                end = str(e)
            sim.kill_all()
        finally:
            seams.unbind(P, saved)
        trace.extend(sim.trace)
        if any(p._exitcode == 9 for p in mp.processes):
            faults["retire"] = faults.get("retire", 0) + sum(1 for p in mp.processes if p._exitcode == 9)
        violation = None
        if found:
            v, hist = found[0]
            violation = {"clause": v[0], "key": v[1], "detail": dict(v[2], previous=[self.jobs[i]["name"] for i in hist[-5:-1]])}
        elif end is not None or "exc" in outcome:
            raise HarnessError("pool-scheduled history did not complete: %s %r" % (end, outcome.get("exc")))
        else:
            # results that crossed the (pickling) queue must equal the pristine ones too
            for dev_id, res in outcome["ok"].items():
                idx = int(dev_id.split(":")[1])
                if res != self.fresh[idx]:
                    violation = {"clause": "history-dependent-result", "key": self.jobs[idx]["kind"],
                                 "detail": {"job": self.jobs[idx]["name"], "via": "pool result", "fresh": _short(self.fresh[idx]),
                                            "here": _short(res)}}
                    break
            if outcome["fail"] and violation is None:
                k, e = sorted(outcome["fail"].items())[0]
                raise HarnessError("job %s failed inside the pool: %r" % (k, e))
        return violation, sim.now, sim.steps


def _short(res):
    s = repr(res)
    return s if len(s) < 1500 else s[:1500] + "..."
