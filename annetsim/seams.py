"""Identity-based seam binding (DESIGN.md 1).

The harness scans a module's namespace for objects that *are* the multiprocessing / time / os
modules (or well-known functions of them) and rebinds those, whatever local name they have.
If a required seam is not found the run stops with a HarnessError instead of running real
processes.  Bindings are restored by `unbind`.
"""
import multiprocessing as _mp
import multiprocessing.context as _mpctx
import os as _os
import time as _time

from .kernel import HarnessError


class OsProxy:
    def __init__(self, sim, real):
        self._sim, self._real = sim, real
        self.kills = []

    def kill(self, pid, sig):
        self.kills.append((pid, int(sig)))
        self._sim.log("os.kill", pid, int(sig))

    def getpid(self):
        return 1

    def _exit(self, code=0):
        """a simulated process that calls os._exit dies on the spot: no feeder flush, nothing else runs"""
        from .fakemp import HardExit
        self._sim.log("os._exit", code)
        raise HardExit(code)

    def __getattr__(self, item):
        return getattr(self._real, item)


def bind(module, sim, fake_mp=None, fake_time=None, fake_os=None, require=("mp", "time")):
    """returns a list of (name, original) for unbind"""
    saved = []
    found = set()
    for name, val in list(vars(module).items()):
        new = None
        if val is _mp and fake_mp is not None:
            new, kind = fake_mp, "mp"
        elif val is _time and fake_time is not None:
            new, kind = fake_time, "time"
        elif val is _os and fake_os is not None:
            new, kind = fake_os, "os"
        elif fake_mp is not None and (val is _mp.Process or val is _mpctx.Process):
            new, kind = fake_mp.Process, "mp"
        elif fake_mp is not None and callable(val) and getattr(val, "__self__", None) is getattr(_mp.Queue, "__self__", object()) \
                and getattr(val, "__name__", "") in ("Queue", "cpu_count", "current_process", "Process"):
            new, kind = getattr(fake_mp, val.__name__), "mp"
        elif fake_mp is not None and val is _mp.current_process:
            new, kind = fake_mp.current_process, "mp"
        elif fake_time is not None and val is _time.monotonic:
            new, kind = fake_time.monotonic, "time"
        elif fake_time is not None and val is _time.sleep:
            new, kind = fake_time.sleep, "time"
        elif fake_time is not None and val is _time.time:
            new, kind = fake_time.time, "time"
        elif fake_os is not None and val is _os.kill:
            new, kind = fake_os.kill, "os"
        if new is not None:
            saved.append((name, val))
            setattr(module, name, new)
            found.add(kind)
    missing = [k for k in require if k not in found]
    if missing:
        unbind(module, saved)
        raise HarnessError("cannot bind seam(s) %s in %s" % (missing, module.__name__))
    return saved


def unbind(module, saved):
    for name, val in saved:
        setattr(module, name, val)
