"""Baton-passing thread kernel on a virtual clock (DESIGN.md 3.2).

Tasks are real threads, but exactly one holds the baton; all others are parked on their own
semaphore.  A task gives the baton back at every intercepted operation.  The scheduler picks
the next task from the choice source, so one choice list is one exactly repeatable execution.
"""
import heapq
import threading


class HarnessError(Exception):
    """the harness (not annet) is at fault: nondeterminism, hang, cannot bind a seam"""


class Deadlock(Exception):
    pass


class StepCap(Exception):
    pass


class Killed(BaseException):
    pass


REAL_WALL_LIMIT = 120.0  # seconds a single task may hold the baton before we call it a hang


class Task:
    __slots__ = ("sim", "name", "fn", "sem", "state", "wake_pred", "deadline", "timed_out", "exc",
                 "thread", "killed", "seq", "prio", "last_deliv", "kind", "hard_exited")

    def __init__(self, sim, name, fn, kind="task"):
        self.sim, self.name, self.fn, self.kind = sim, name, fn, kind
        self.sem = threading.Semaphore(0)
        self.state = "runnable"   # runnable | blocked | done
        self.wake_pred = None
        self.deadline = None
        self.timed_out = False
        self.exc = None
        self.killed = False
        self.prio = 0
        self.hard_exited = False
        self.last_deliv = {}
        self.thread = threading.Thread(target=self._run, name="sim:" + name, daemon=True)

    def _run(self):
        self.sem.acquire()
        try:
            if self.killed:
                raise Killed()
            self.fn()
        except Killed:
            pass
        except BaseException as e:  # pylint: disable=broad-except
            self.exc = e
        self.state = "done"
        self.sim._sched_sem.release()


class Sim:
    """strategy: dict(kind="uniform"|"prio"|"starve", ...) -- itself drawn by the engine"""

    def __init__(self, choices, max_steps=50000, strategy=None, time_limit=None):
        self.ch = choices
        self.now = 0.0
        self.tasks = []
        self.timers = []   # (t, seq, fn)
        self.seq = 0
        self.trace = []
        self.sched_sig = []
        self._sched_sem = threading.Semaphore(0)
        self.current = None
        self.steps = 0
        self.max_steps = max_steps
        self.time_limit = time_limit
        self.strategy = strategy or {"kind": "uniform"}
        self._prio_changes = set(self.strategy.get("changes", ()))
        self._task_seq = 0

    # ---- logging: never draws, never reads a real clock
    def log(self, *a):
        self.trace.append((len(self.trace), round(self.now, 6), self.current.name if self.current else "-") + a)

    def spawn(self, name, fn, kind="task"):
        t = Task(self, name, fn, kind)
        t.seq = self._task_seq
        self._task_seq += 1
        if self.strategy["kind"] == "prio":
            t.prio = 1000 + self.ch.draw(1000, "prio")
        self.tasks.append(t)
        t.thread.start()
        return t

    def after(self, d, fn):
        self.seq += 1
        heapq.heappush(self.timers, (self.now + d, self.seq, fn))

    # ---- called from task threads (the baton holder)
    def _park(self, me):
        if me.killed:
            # the code under simulation swallowed (or replaced) Killed while unwinding and came back to a sync point:
            # it must not park again -- nobody would ever wake it
            raise Killed()
        self._sched_sem.release()
        me.sem.acquire()
        if me.killed:
            raise Killed()

    def yield_(self):
        me = self.current
        if me is None:
            raise HarnessError("sync point reached outside a simulated task")
        self._park(me)

    def block(self, pred, timeout=None):
        """block current task until pred() holds or timeout elapses; True if pred held"""
        me = self.current
        if me is None:
            raise HarnessError("blocking operation outside a simulated task")
        if pred():
            self._park(me)          # a sync point even when not blocking
            if pred():
                return True
        me.state = "blocked"
        me.wake_pred = pred
        me.deadline = None if timeout is None else self.now + max(0.0, timeout)
        me.timed_out = False
        self._park(me)
        return not me.timed_out

    def sleep(self, d):
        self.block(lambda: False, timeout=d)

    # ---- scheduler
    def _pick(self, runnable):
        kind = self.strategy["kind"]
        if len(runnable) == 1:
            return runnable[0]
        if kind == "uniform":
            return runnable[self.ch.draw(len(runnable), "sched")]
        if kind == "prio":
            best = max(runnable, key=lambda t: (t.prio, -t.seq))
            if self.steps in self._prio_changes:
                best.prio = self.ch.draw(1000, "prio-drop")
            return best
        if kind == "starve":
            victim = self.strategy["victim"]
            others = [t for t in runnable if not t.name.startswith(victim)]
            if others and len(others) < len(runnable) and self.ch.draw(8, "starve") != 0:
                return others[self.ch.draw(len(others), "sched")]
            return runnable[self.ch.draw(len(runnable), "sched")]
        raise HarnessError("unknown strategy %r" % kind)

    def run(self):
        while True:
            self.steps += 1
            if self.steps > self.max_steps:
                raise StepCap("step cap %d" % self.max_steps)
            if self.time_limit is not None and self.now > self.time_limit:
                raise StepCap("simulated time limit %.1f" % self.time_limit)
            while self.timers and self.timers[0][0] <= self.now:
                _, _, fn = heapq.heappop(self.timers)
                fn()
            for t in self.tasks:
                if t.state == "blocked":
                    if t.wake_pred():
                        t.state = "runnable"
                    elif t.deadline is not None and t.deadline <= self.now:
                        t.state = "runnable"
                        t.timed_out = True
            runnable = [t for t in self.tasks if t.state == "runnable"]
            if not runnable:
                if all(t.state == "done" for t in self.tasks):
                    return
                nxt = [t.deadline for t in self.tasks if t.state == "blocked" and t.deadline is not None]
                if self.timers:
                    nxt.append(self.timers[0][0])
                if not nxt:
                    raise Deadlock("no runnable task and no timer: " +
                                   ",".join("%s:%s" % (t.name, t.state) for t in self.tasks if t.state != "done"))
                self.now = max(self.now, min(nxt))
                continue
            t = self._pick(runnable)
            self.sched_sig.append(t.seq)
            self.current = t
            t.sem.release()
            if not self._sched_sem.acquire(timeout=REAL_WALL_LIMIT):
                raise HarnessError("task %s held the baton for more than %ds of real time" % (t.name, REAL_WALL_LIMIT))
            self.current = None

    def kill_all(self):
        """unwind every unfinished task, one at a time"""
        for t in self.tasks:
            if t.state != "done":
                t.killed = True
                self.current = t
                t.sem.release()
                self._sched_sem.acquire(timeout=10)
        self.current = None
        for t in self.tasks:
            t.thread.join(timeout=10)

    def unfinished(self):
        return [t for t in self.tasks if t.state != "done"]


class FakeTime:
    """stands in for the `time` module inside annet modules"""

    def __init__(self, sim, real):
        self._sim, self._real = sim, real

    def monotonic(self):
        return self._sim.now

    def time(self):
        return 1700000000.0 + self._sim.now

    def perf_counter(self):
        return self._sim.now

    def sleep(self, d):
        self._sim.log("sleep", d)
        self._sim.sleep(d)

    def __getattr__(self, item):
        return getattr(self._real, item)
