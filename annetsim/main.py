"""Command line of the simulator.  Run as a script (never with -m, which would import the
engine modules twice): /venv/bin/python /verif/annetsim/main.py check C12 quick"""
import importlib
import json
import os
import sys

HERE = os.path.dirname(os.path.abspath(__file__))
VERIF = os.path.dirname(HERE)
REPO = os.environ.get("VERIF_REPO", "/repo")

ENGINES = {
    "C01": "cli:C01",
    "C02": "cli:C02",
    "C09": "cli:C09",
    "C11": "vlan",
    "C12": "pool",
    "C16": "files",
    "C19": "pc",
    "C20": "history",
}
MODULES = {
    "pool": "annetsim.engines.pool",
    "cli": "annetsim.engines.cli",
    "vlan": "annetsim.engines.vlan",
    "files": "annetsim.engines.files",
    "pc": "annetsim.engines.pc",
    "history": "annetsim.engines.history",
}


def _prepare():
    if os.environ.get("PYTHONHASHSEED") is None:
        env = dict(os.environ)
        env["PYTHONHASHSEED"] = "0"
        os.execve(sys.executable, [sys.executable] + sys.argv, env)
    # the repository under test first, then /verif
    sys.path[:] = [p for p in sys.path if os.path.abspath(p or ".") not in (HERE,)]
    sys.path.insert(0, VERIF)
    sys.path.insert(0, REPO)
    os.environ["ANNET_VERIF_SIM"] = "1"
    os.chdir(REPO)
    import annet  # noqa
    got = os.path.dirname(os.path.dirname(os.path.abspath(annet.__file__)))
    if os.path.realpath(got) != os.path.realpath(REPO):
        print("HARNESS-ERROR: annet imported from %s, expected %s" % (got, REPO))
        sys.exit(2)


def make_engine(spec, tier="quick"):
    name, _, arg = spec.partition(":")
    mod = importlib.import_module(MODULES[name])
    eng = mod.Engine(tier)
    eng.spec = spec
    if arg:
        eng.configure(arg)
    return eng


def main(argv):
    # relative replay paths are meant relative to the caller's directory (we chdir to the repository below)
    argv = [os.path.abspath(a) if (i > 0 and argv[0] == "replay" and not a.startswith("-")) else a for i, a in enumerate(argv)]
    _prepare()
    from annetsim import runner
    from annetsim.kernel import HarnessError
    from annetsim.choices import derive_seed
    cmd = argv[0] if argv else "help"
    try:
        if cmd == "check":
            prop, tier = argv[1], (argv[2] if len(argv) > 2 else os.environ.get("VERIF_TIER", "quick"))
            eng = make_engine(ENGINES[prop], tier)
            return runner.run_check(eng, tier)
        if cmd == "digest":
            spec, idx = argv[1], [int(x) for x in argv[2].split(",") if x]
            eng = make_engine(spec)
            eng.setup()
            base = int(os.environ.get("VERIF_SEED", "0") or 0)
            for i in idx:
                ch, res = runner.run_seed(eng, derive_seed(base, spec, i))
                print("DIGEST %s %d" % (runner.run_digest(ch, res), i))
            return 0
        if cmd == "replay":
            with open(argv[1]) as f:
                doc = json.load(f)
            spec = doc["engine"]
            for prop, s in ENGINES.items():
                if s.split(":")[0] == doc["engine"] and prop == doc["property"]:
                    spec = s
            eng = make_engine(spec)
            eng.setup()
            ch, res = runner.run_choices(eng, doc["choices"])
            v = res.get("violation")
            sha = runner.trace_sha(res)
            if v and v["clause"] == doc["clause"] and v["key"] == doc["key"]:
                same = sha == doc.get("trace_sha256")
                print("REPRODUCED property=%s clause=%s key=%s trace_sha256 %s" %
                      (doc["property"], v["clause"], v["key"], "identical" if same else "DIFFERS (code under test changed?)"))
                print(json.dumps(v.get("detail"), indent=1, default=repr))
                if "-v" in argv:
                    for ev in res.get("trace", []):
                        print("   ", ev)
                print("VIOLATION property=%s replay=%s" % (doc["property"], os.path.abspath(argv[1])))
                return 1
            print("NOT REPRODUCED: %s" % (("other violation %s/%s" % (v["clause"], v["key"])) if v else "run is clean"))
            return 0
        if cmd == "seed":
            # run a single seed verbosely: main.py seed <spec> <index>
            eng = make_engine(argv[1])
            eng.setup()
            base = int(os.environ.get("VERIF_SEED", "0") or 0)
            ch, res = runner.run_seed(eng, derive_seed(base, argv[1], int(argv[2])))
            print(json.dumps({k: v for k, v in res.items() if k not in ("trace",)}, indent=1, default=repr))
            if "-v" in argv:
                for ev in res.get("trace", []):
                    print("   ", ev)
            return 0
        print(__doc__)
        return 2
    except HarnessError as e:
        print("HARNESS-ERROR: %s" % e, flush=True)
        return 2


if __name__ == "__main__":
    try:
        rc = main(sys.argv[1:])
    except SystemExit:
        raise
    except BaseException:  # pylint: disable=broad-except
        import traceback
        traceback.print_exc()
        print("HARNESS-ERROR: unexpected exception in the harness", flush=True)
        rc = 2
    sys.stdout.flush()
    os._exit(rc)
