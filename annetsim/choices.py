"""The single source of nondeterminism of a simulated run (DESIGN.md 3.1).

Every decision of a run -- workload shape, generated rulebooks and trees, which task runs
next, every delay, whether and where a fault fires, knob values -- is an integer obtained
through Choices.draw(n, tag).  A run is a pure function of the list of drawn integers, so a
recorded list is a replay file and *any* integer list is a valid run (values are reduced
mod n, an exhausted list yields 0), which is what makes minimisation generic.
"""
import hashlib
import random


def derive_seed(base, label, index):
    h = hashlib.sha256(("%s:%s:%s" % (base, label, index)).encode()).digest()
    return int.from_bytes(h[:8], "big")


class Choices:
    __slots__ = ("rng", "rec", "pos", "log", "seed", "tags")

    def __init__(self, seed=None, recorded=None):
        self.seed = seed
        self.rng = random.Random(seed) if recorded is None else None
        self.rec = list(recorded) if recorded is not None else None
        self.pos = 0
        self.log = []
        self.tags = []       # tag of every logged draw (used by the minimiser to shrink scenario sizes first)

    def draw(self, n, tag=""):
        """integer in [0, n); n <= 1 consumes nothing"""
        if n <= 1:
            return 0
        if self.rec is not None:
            v = self.rec[self.pos] if self.pos < len(self.rec) else 0
            self.pos += 1
            v = v % n
        else:
            v = self.rng.randrange(n)
        self.log.append(v)
        self.tags.append(tag)
        return v

    def chance(self, num, den, tag=""):
        """true with probability num/den; value 0..num-1 means true so that zeroing a choice
        during minimisation turns a fault ON only when num==den; we want zero == 'no fault',
        hence the inverted test"""
        return self.draw(den, tag) >= den - num

    def pick(self, seq, tag=""):
        return seq[self.draw(len(seq), tag)]

    def weighted(self, pairs, tag=""):
        """pairs: [(weight, value)]"""
        total = sum(w for w, _ in pairs)
        v = self.draw(total, tag)
        for w, val in pairs:
            if v < w:
                return val
            v -= w
        return pairs[-1][1]

    def shuffle(self, items, tag=""):
        items = list(items)
        for i in range(len(items) - 1, 0, -1):
            j = self.draw(i + 1, tag)
            items[i], items[j] = items[j], items[i]
        return items

    def sample(self, items, k, tag=""):
        return self.shuffle(items, tag)[:k]
