"""Virtual-time asyncio event loop (DESIGN.md 3.4): no selector, no sockets; when nothing is
ready the clock jumps to the earliest scheduled handle."""
import asyncio
import heapq


class SimClock:
    def __init__(self):
        self.now = 0.0


class LoopIdle(RuntimeError):
    pass


class SimEventLoop(asyncio.BaseEventLoop):
    def __init__(self, clock):
        super().__init__()
        self._clock = clock
        self._selector = None
        self.callbacks_run = 0

    def time(self):
        return self._clock.now

    def _process_events(self, event_list):
        pass

    def _write_to_self(self):
        pass

    def _run_once(self):
        while self._scheduled and self._scheduled[0]._cancelled:
            h = heapq.heappop(self._scheduled)
            h._scheduled = False
        if not self._ready and self._scheduled:
            when = self._scheduled[0]._when
            if when > self._clock.now:
                self._clock.now = when
        end = self._clock.now + self._clock_resolution
        while self._scheduled and self._scheduled[0]._when < end:
            h = heapq.heappop(self._scheduled)
            h._scheduled = False
            if not h._cancelled:
                self._ready.append(h)
        if not self._ready and not self._scheduled:
            raise LoopIdle("simulated event loop is idle with unfinished work: deadlock")
        for _ in range(len(self._ready)):
            h = self._ready.popleft()
            if not h._cancelled:
                self.callbacks_run += 1
                h._run()


class SimPolicy(asyncio.DefaultEventLoopPolicy):
    def __init__(self, clock=None):
        super().__init__()
        self.clock = clock or SimClock()

    def new_event_loop(self):
        return SimEventLoop(self.clock)


_installed = None


def install(clock=None):
    """install the policy process-wide; returns the clock"""
    global _installed
    pol = SimPolicy(clock)
    asyncio.set_event_loop_policy(pol)
    _installed = pol
    return pol.clock


def run(coro, clock=None):
    """run a coroutine to completion on a fresh simulated loop"""
    loop = SimEventLoop(clock or (_installed.clock if _installed else SimClock()))
    try:
        asyncio.set_event_loop(loop)
        return loop.run_until_complete(coro)
    finally:
        try:
            asyncio.set_event_loop(None)
        finally:
            loop.close()
