"""Simulated peers for whole-system runs of annet (DESIGN.md 3.5): inventory, generators,
fetcher and deploy driver.  annet obtains fetcher/driver instances through connectors, which
instantiate the class anew, so the state lives in the module-level WORLD."""
import asyncio
from collections import OrderedDict as odict

from annet import deploy as ann_deploy
from annet import gen as ann_gen
from annet.annlib.netdev.views.hardware import HardwareView
from annet.deploy import DeployDriver, DeployResult, Fetcher
from annet.generators import PartialGenerator
from annet.storage import Query

from . import cli as W

WORLD = None


class SimQuery(Query):
    def __init__(self, q=("sim",)):
        self.q = list(q)

    @classmethod
    def new(cls, query, hosts_range=None):
        return cls(query)

    def is_empty(self):
        return not self.q

    def __bool__(self):
        return bool(self.q)


class SimStorage:
    def flush_perf(self):
        return {}


class InvDevice:
    """what annet's inventory knows about a device"""

    def __init__(self, dev_id, model, breed="sim"):
        self.id = dev_id
        self.hostname = "dev%d" % dev_id
        self.fqdn = self.hostname + ".sim"
        self.hw = HardwareView(model, None)
        self.breed = breed
        self.storage = SimStorage()
        self.neighbours_ids = []
        self.neighbours_fqdns = []

    def is_pc(self):
        return self.hw.vendor == "pc"

    def __hash__(self):
        return hash(("inv", self.id))

    def __eq__(self, other):
        return isinstance(other, InvDevice) and other.id == self.id

    def __repr__(self):
        return "InvDevice(%s)" % self.hostname

    def __lt__(self, other):
        return self.id < other.id


class SimLoader:
    def __init__(self, devices, gens_of):
        self._d = odict((d.id, d) for d in devices)
        self._gens_of = gens_of

    @property
    def devices(self):
        return list(self._d.values())

    @property
    def device_ids(self):
        return list(self._d)

    @property
    def device_fqdns(self):
        return {i: d.fqdn for i, d in self._d.items()}

    def get_device(self, i):
        return self._d[i]

    def resolve_gens(self, devices):
        g = ann_gen.DeviceGenerators()
        for d in devices:
            partial, entire = self._gens_of(d)
            g.partial[d] = list(partial)
            g.ref[d] = []
            g.entire[d] = list(entire)
            g.json_fragment[d] = []
        return g


# ----------------------------------------------------------------------------- ownership / generators
class Owned:
    __slots__ = ("rule", "cant_delete", "children", "key_re")

    def __init__(self, rule, cant_delete=None, children=None, key_re=None):
        self.rule, self.cant_delete, self.children = rule, cant_delete, children if children is not None else []
        self.key_re = key_re      # the generator lists the block only for some keys:  lit */re/

    def pattern(self, rev):
        p = self.rule.pattern(rev)
        if self.key_re:
            ws = p.split()
            i = ws.index("*")
            ws[i] = "*/%s/" % self.key_re
            p = " ".join(ws)
        return p

    def covers(self, row, rev):
        """does this ACL line match the row (given that the row instantiates self.rule)"""
        if not self.key_re:
            return True
        import re
        key = W.match_one(self.rule, row, rev)
        if key is None:
            m = W.match_removal([self.rule], [], row, rev)
            key = m[1] if m else None
        return bool(key) and re.fullmatch(self.key_re, key[0]) is not None

    def eff_cant_delete(self, rev):
        if self.cant_delete is not None:
            return bool(self.cant_delete)
        return self.pattern(rev).startswith("interface")


def acl_text(owned, rev, ind=0):
    lines = []
    for o in owned:
        r = o.rule
        line = "    " * ind + o.pattern(rev)
        if o.cant_delete is not None:
            line += " %%cant_delete=%d" % o.cant_delete
        if r.is_global:
            line += " %global"
        lines.append(line)
        if o.children == "ALL":
            lines.append("    " * (ind + 1) + "~ %global")
        elif o.children:
            lines.extend(acl_text(o.children, rev, ind + 1))
    return lines


def project(tree, owned, rb, rules, owned_globals=()):
    """the part of `tree` a generator with ownership `owned` is responsible for"""
    out = odict()
    if owned == "ALL":
        return _deep(tree)
    omap = {}
    for row, sub in tree.items():
        m = W.match_direct(rules, rb.globals, row, rb.rev)
        if m is None:
            continue
        r = m[0]
        omap = {o.rule.uid: o for o in owned if o.covers(row, rb.rev) or o.rule is not r}
        if r.uid not in omap and r.twin is not None and r.twin.uid in omap and not r.block:
            out[row] = odict()          # the generator asks for the other form of a setting it owns
            continue
        if r.uid in omap:
            o = omap[r.uid]
            out[row] = project(sub, o.children, rb, r.children, owned_globals) if (r.block and not r.rewrite) or o.children == "ALL" \
                else _deep(sub)
        elif r.is_global and r.uid in owned_globals:
            out[row] = odict()
    return out


def _deep(t):
    return odict((k, _deep(v)) for k, v in t.items())


def make_generator(name, owned, world):
    """a PartialGenerator subclass (unique class name: results are keyed by it) for one owner"""
    rev = world.rb.rev
    # ACLs are written inside indented triple-quoted strings: every generator has its own base indentation
    base = " " * (4 * (sum(ord(c) for c in name) % 4))
    text = "\n" + "\n".join(base + line for line in acl_text(owned, rev)) + "\n" + base
    owned_globals = tuple(o.rule.uid for o in owned if o.rule.is_global)

    def run(self, device):
        desired = world.desired[device.id]
        mine = project(desired, owned, world.rb, world.rb.rules, owned_globals)
        yield from _emit_tree(self, mine, 0)

    def acl(self, device):
        return text
    cls = type(name, (PartialGenerator,), {"run": run, "acl": acl, "TAGS": [name.lower()]})
    return cls(SimStorage())


def _emit_tree(gen, tree, depth):
    for row, sub in tree.items():
        ws = row.split()
        if sub:
            sel = (len(row) + depth) % 3
            if len(ws) > 1 and sel == 0:
                cm = gen.block(*ws)
            elif sel == 1:
                cm = gen.multiblock(row)
            else:
                cm = gen.block(row)
            with cm:
                yield from _emit_tree(gen, sub, depth + 1)
        elif len(ws) > 1 and len(row) % 2:
            yield tuple(ws)
        else:
            yield row


# ----------------------------------------------------------------------------- fetch / deploy seams
class FetchFailed(Exception):
    pass


class DeployCut(Exception):
    pass


class CommandTimeout(Exception):
    pass


class NoAnswer(Exception):
    pass


class SimFetcher(Fetcher):
    async def fetch_packages(self, devices, processes=1, max_slots=0):
        return {}, {}

    async def fetch(self, devices, files_to_download=None, processes=1, max_slots=0):
        w = WORLD
        ok, failed = {}, {}
        for d in devices:
            plan = w.fetch_plan.get(d.id, {})
            if plan.get("stall"):
                w.fire("fetch_stall")
                await asyncio.sleep(plan["stall"])
            else:
                await asyncio.sleep(0.05)
            w.event("fetch", d.hostname, "fail" if plan.get("fail") else "ok")
            if plan.get("fail") == "exc":
                w.fire("fetch_fail")
                failed[d] = FetchFailed("simulated fetch failure for %s" % d.hostname)
            elif plan.get("fail") == "missing":
                w.fire("fetch_fail")
            elif files_to_download is not None:
                ok[d] = w.fetch_files(d, files_to_download.get(d, []))
            else:
                ok[d] = w.show_config(d)
        return ok, failed


class SimDeployDriver(DeployDriver):
    async def bulk_deploy(self, deploy_cmds, args, progress_bar=None):
        w = WORLD
        res = DeployResult(hostnames=[], results={}, durations={}, original_states={})
        w.event("bulk_deploy", sorted(d.hostname for d in deploy_cmds))

        async def one(dev, cmds):
            t0 = asyncio.get_event_loop().time()
            try:
                out = await w.play(dev, cmds, args)
            except Exception as e:  # pylint: disable=broad-except
                out = e
            return dev, out, asyncio.get_event_loop().time() - t0
        tasks = []
        for n, (dev, cmds) in enumerate(deploy_cmds.items()):
            tasks.append(asyncio.ensure_future(one(dev, cmds)))
            tasks[-1].set_name("deploy-%s" % dev.hostname)
        for dev, out, dur in await asyncio.gather(*tasks):
            res.hostnames.append(dev.fqdn)
            res.results[dev.fqdn] = out
            res.durations[dev.fqdn] = dur
            res.original_states[dev.fqdn] = None
        return res

    def apply_deploy_rulebook(self, hw, cmd_paths, do_finalize=True, do_commit=True):
        return ann_deploy.apply_deploy_rulebook(hw, cmd_paths, do_finalize=do_finalize, do_commit=do_commit)

    def build_configuration_cmdlist(self, hw, do_finalize=True, do_commit=True):
        """session commands of the transport itself (a real driver may e.g. become root before and leave after)"""
        from annet.annlib.command import Command, CommandList
        before, after = CommandList(), CommandList()
        w = WORLD
        for c in getattr(w, "driver_before", ()) if w is not None else ():
            before.add_cmd(Command(c))
        for c in getattr(w, "driver_after", ()) if w is not None else ():
            after.add_cmd(Command(c))
        return before, after

    def build_exit_cmdlist(self, hw):
        from annet.annlib.command import Command
        w = WORLD
        return [Command(c) for c in (getattr(w, "driver_exit", ()) if w is not None else ())]


def install():
    ann_deploy.driver_connector._classes = [SimDeployDriver]
    ann_deploy.fetcher_connector._classes = [SimFetcher]
