"""CLI world (DESIGN.md 3.5): synthetic rulebooks over the rule language, config trees that
instantiate them, and CliDevice -- the reference model of a device that holds one line per
(rule, key).  Matching here is an INDEPENDENT implementation of the rule language (literal
words, '*', trailing '~'); it never calls annet's compile_row_regexp.
"""
import copy
import re
from collections import OrderedDict as odict

# (some head words merely BEGIN with a vendor's negation prefix: 'notify', 'undolog' are ordinary commands)
# (and some are proper prefixes of others: 'beta' / 'betamax', 'alpha' / 'alphabet' -- like 'ip' / 'ipv6')
HEADS = ["alpha", "beta", "gamma", "delta", "eps", "zeta", "eta", "theta", "iota", "kappa", "notify", "undolog", "node",
         "betamax", "alphabet"]
BLOCK_HEADS = ["interface", "vrf", "group", "policy", "zone"]
GLOBAL_HEADS = ["gdesc", "gnote"]
KEYS = ["k1", "k2", "k3", "10", "20"]
VALS = ["v1", "v2", "v3", "100", "200"]
RW_LINES = ["permit a", "permit b", "deny c", "match d", "set e 5", "seq 10 x", "seq 20 y"]

LOGICS = [None, None, None, None, "undo_redo", "permanent", "ignore_changes"]


class RuleSpec:
    __slots__ = ("uid", "lit", "nkeys", "tail", "logic", "ordered", "rewrite", "is_global", "neg", "children",
                 "block", "timeout", "dialogs", "deploy_nested", "key_re", "twin", "bvalue")

    def __init__(self, uid, lit, nkeys=0, tail=False, logic=None, ordered=False, rewrite=False, is_global=False,
                 neg=False, children=None, block=False):
        self.uid, self.lit, self.nkeys, self.tail, self.logic = uid, lit, nkeys, tail, logic
        self.ordered, self.rewrite, self.is_global, self.neg = ordered, rewrite, is_global, neg
        self.children = children or []
        self.block = block
        self.timeout = None
        self.dialogs = []
        self.deploy_nested = False
        self.key_re = None        # regex the first key word must match in full:  lit */re/
        self.twin = None          # toggle pair: 'x *' and '<rev> x *' are the two forms of one device setting
        self.bvalue = False       # a block whose line may carry one value word after its key ('peer-group X internal')

    def pattern(self, rev):
        stars = ["*"] * self.nkeys
        if self.key_re and stars:
            stars[0] = "*/%s/" % self.key_re
        return ((rev + " ") if self.neg else "") + " ".join([self.lit] + stars) + (" ~" if self.tail else "")

    def rule_text(self, rev):
        s = self.pattern(rev)
        if self.logic and "." in self.logic:
            s += " %logic=" + self.logic
        elif self.logic:
            s += " %logic=common." + self.logic
        if self.ordered:
            s += " %ordered"
        if self.is_global:
            s += " %global"
        return s

    def describe(self):
        flags = [f for f in ("ordered", "rewrite", "is_global", "neg", "block") if getattr(self, f)]
        if self.key_re:
            flags.append("re=" + self.key_re)
        return "%s/%d%s%s%s" % (self.lit, self.nkeys, "~" if self.tail else "", ("[%s]" % self.logic) if self.logic else "",
                                ("{%s}" % ",".join(flags)) if flags else "")


class Rulebook:
    def __init__(self, vendor, rev, exit_word, rules, globals_):
        self.vendor, self.rev, self.exit = vendor, rev, exit_word
        self.rules = rules          # top-level local rules
        self.globals = globals_     # top-level %global leaf rules (apply at every depth)
        self.all = []
        self._index(rules)
        self.all.extend(globals_)

    def _index(self, rules):
        for r in rules:
            self.all.append(r)
            self._index(r.children)

    def text(self):
        out = []

        def emit(rules, ind):
            for r in rules:
                out.append("    " * ind + r.rule_text(self.rev))
                if r.rewrite:
                    out.append("    " * (ind + 1) + "~ %rewrite %global")
                else:
                    emit(r.children, ind + 1)
        emit(self.rules, 0)
        for g in self.globals:
            out.append(g.rule_text(self.rev))
        return "\n".join(out) + "\n"


def gen_rulebook(ch, vendor, rev, exit_word, unique_heads=False, allow=None):
    """allow: set of feature names enabled in this world (swarm)"""
    allow = allow if allow is not None else {"ordered", "rewrite", "global", "neg", "logic", "tail", "values"}
    counter = [0]
    pool = list(HEADS)
    bpool = list(BLOCK_HEADS)

    def uid():
        counter[0] += 1
        return counter[0]

    def head(block, used):
        src = bpool if block else pool
        cands = [w for w in src if w not in used]
        if not cands:
            cands = [w + "x" for w in src if w + "x" not in used]
        w = cands[ch.draw(len(cands), "head")]
        if unique_heads:
            w = "%s%d" % (w, counter[0] + 1)
        used.add(w)
        return w

    def gen(depth, under_ordered=False):
        # (a moved row of an %ordered block rule is deleted and re-created, so the permanent / ignore_changes
        #  exceptions are only modelled outside ordered blocks)
        rules = []
        used = set()
        have_ordered = False
        n = 2 + ch.draw(4, "nrules") if depth == 0 else 1 + ch.draw(3, "nrules")
        for _ in range(n):
            is_block = depth < 2 and ch.draw(5, "is_block") < 2
            if is_block:
                if "rewrite" in allow and ch.draw(6, "rewrite") == 0:
                    r = RuleSpec(uid(), head(True, used), nkeys=1, rewrite=True, block=True)
                else:
                    nk = ch.pick([0, 1, 1, 1], "bkeys")
                    ordd = ("ordered" in allow) and (not have_ordered) and ch.draw(4, "ordered") == 0
                    have_ordered = have_ordered or ordd
                    logic = "permanent" if ("logic" in allow and not ordd and not under_ordered and ch.draw(8, "bperm") == 0) else None
                    r = RuleSpec(uid(), head(True, used), nkeys=nk, ordered=ordd, logic=logic, block=True)
                    if "values" in allow and "logic" in allow and not ordd and logic is None and ch.draw(4, "bvalue") == 0:
                        # the block line carries a value beyond its key ('peer-group X internal'); such a line can only be
                        # changed by removing the block and creating it again, which is what undo_redo says
                        r.bvalue = True
                        r.logic = "undo_redo"
                    r.children = gen(depth + 1, under_ordered or ordd)
                    if "overlap" in allow and nk == 1 and not ordd and logic is None and not r.bvalue and ch.draw(3, "overlap") == 0:
                        # a more specific block rule for the same head, listed first: 'lit */k\d+/' before 'lit *';
                        # its child rules compete with the generic rule's children for the same commands
                        sp = RuleSpec(uid(), r.lit, nkeys=1, block=True)
                        sp.key_re = "k\\d+"
                        leafs = [c for c in r.children if not c.block and not c.ordered and not c.neg]
                        if leafs:
                            c = leafs[ch.draw(len(leafs), "overlap-child")]
                            sp.children.append(RuleSpec(uid(), c.lit, nkeys=(c.nkeys + 1) % 3))
                        sp.children.append(RuleSpec(uid(), "spec%d" % sp.uid, nkeys=ch.draw(2, "overlap-nk")))
                        rules.append(sp)
                    elif "logic" in allow and r.logic is None and not ordd and not under_ordered and ch.draw(8, "bignore") == 0:
                        # ignore_changes on a block line: the line itself is only ever added or removed (its key is the
                        # whole line), so the block is entered and its children are patched as usual
                        r.logic = "ignore_changes"
            else:
                nk = ch.pick([0, 1, 1, 2], "lkeys")
                tail = ("tail" in allow) and ch.draw(5, "tail") == 0
                ordd = ("ordered" in allow) and (not have_ordered) and nk >= 1 and ch.draw(7, "lordered") == 0
                have_ordered = have_ordered or ordd
                logic = None if (ordd or "logic" not in allow) else LOGICS[ch.draw(len(LOGICS), "logic")]
                if under_ordered and logic in ("permanent", "ignore_changes"):
                    logic = None
                neg = ("neg" in allow) and (not ordd) and ch.draw(8, "neg") == 0
                if "force_commit" in allow and logic is None and not ordd and not neg and not tail and ch.draw(5, "dynfc") == 0:
                    logic = "simlogic.dyn_force_commit"
                r = RuleSpec(uid(), head(False, used), nkeys=nk, tail=tail, logic=logic, ordered=ordd, neg=neg)
                if neg and "twins" in allow and logic is None and ch.draw(2, "twin") == 0:
                    # the positive form of the same setting is a rule of its own ('x *' next to 'undo x *')
                    t = RuleSpec(uid(), r.lit, nkeys=nk, tail=tail)
                    r.twin, t.twin = t, r
                    rules.append(t)
            rules.append(r)
        return rules

    rules = gen(0)
    if unique_heads:
        # the same command may exist inside several blocks ('shutdown' under interface and under bgp): clone a leaf child
        blocks = [r for r in rules if r.block and not r.rewrite and r.children]
        if len(blocks) >= 2 and ch.draw(2, "shared-child") == 0:
            a, b = blocks[0], blocks[1]
            leafs = [c for c in a.children if not c.block and not c.ordered and not c.neg and c.logic is None]
            if leafs:
                c = leafs[ch.draw(len(leafs), "shared-child-pick")]
                if not any(x.lit == c.lit for x in b.children):
                    b.children.append(RuleSpec(uid(), c.lit, nkeys=c.nkeys, tail=c.tail))
    globals_ = []
    if "global" in allow:
        for g in range(ch.draw(3, "nglobals")):
            lit = GLOBAL_HEADS[g] + (str(counter[0] + 1) if unique_heads else "")
            globals_.append(RuleSpec(uid(), lit, nkeys=0, tail=True, is_global=True))
    return Rulebook(vendor, rev, exit_word, rules, globals_)


# ----------------------------------------------------------------------------- reference matcher
def words(row):
    return row.split()


def match_one(r, row, rev):
    """key if `row` directly instantiates rule r, else None"""
    ws = words(row)
    pre = ([rev] if r.neg else []) + [r.lit]
    if ws[:len(pre)] != pre:
        return None
    rest = ws[len(pre):]
    if len(rest) < r.nkeys:
        return None
    if r.tail and len(rest) < r.nkeys + 1:
        return None
    if r.block and len(rest) != r.nkeys and not (r.bvalue and len(rest) == r.nkeys + 1):
        return None
    if r.key_re and not re.fullmatch(r.key_re, rest[0]):
        return None
    key = tuple(rest[:r.nkeys])
    if r.tail:
        key += (" ".join(rest[r.nkeys:]),)
    return key


def match_direct(rules, globals_, row, rev):
    """(rule, key) if `row` directly instantiates one of the rules (the first one in rulebook order), else None"""
    for r in list(rules) + list(globals_):
        key = match_one(r, row, rev)
        if key is not None:
            return r, key
    return None


def kids(rules, row, r, rev):
    """child rules in force inside the block `row` governed by rule r: when several block rules of the level match
    the row (a specific 'lit */re/' listed before a generic 'lit *'), their children are merged, earlier rules first"""
    if not r.block or r.rewrite:
        return r.children
    out = []
    for x in rules:
        if x.block and not x.rewrite and (x is r or match_one(x, row, rev) is not None):
            out.extend(c for c in x.children if c not in out)
    return out


def match_removal(rules, globals_, row, rev):
    """(rule, key) if `row` is the negation of a row instantiating one of the rules"""
    ws = words(row)
    cand = " ".join(ws[1:]) if ws and ws[0] == rev else rev + " " + row
    m = match_direct(rules, globals_, cand, rev) if cand else None
    if m is None:
        return None
    r, key = m
    return r, key


def find_line(tree, rules, globals_, rule, key, rev):
    for x in tree:
        m = match_direct(rules, globals_, x, rev)
        if m and m[0] is rule and m[1] == key:
            return x
    return None


# ----------------------------------------------------------------------------- trees
def gen_row(ch, r, rev):
    parts = ([rev] if r.neg else []) + [r.lit] + [KEYS[ch.draw(len(KEYS), "key")] for _ in range(r.nkeys)]
    if r.tail:
        parts += [VALS[ch.draw(len(VALS), "tailv")] for _ in range(1 + ch.draw(2, "taillen"))]
    elif r.block and r.bvalue and ch.draw(3, "bval") != 0:
        parts += [VALS[ch.draw(len(VALS), "bvalv")]]
    elif not r.block and r.logic != "permanent" and ch.draw(2, "hasval") == 1:
        # (a permanent line is identified by its key alone: common.permanent ignores a change of value)
        parts += [VALS[ch.draw(len(VALS), "val")]]
    return " ".join(parts)


RW_SUB = ["when x", "when y", "unless z"]
RW_SUBLINES = ["apply p", "apply q", "drop r", "pass s"]


def gen_rewrite_body(ch):
    """body of a rewrite block: plain lines and (sometimes) one level of nested sub-blocks"""
    t = odict()
    for _ in range(1 + ch.draw(4, "rwn")):
        if ch.draw(4, "rwsub") == 0:
            head = RW_SUB[ch.draw(len(RW_SUB), "rwsubhead")]
            if head not in t:
                t[head] = gen_rewrite_sub(ch)
            continue
        line = RW_LINES[ch.draw(len(RW_LINES), "rwline")]
        if line not in t:
            t[line] = odict()
    return t


def gen_rewrite_sub(ch):
    sub = odict()
    for _ in range(1 + ch.draw(3, "rwsubn")):
        sub[RW_SUBLINES[ch.draw(len(RW_SUBLINES), "rwsubline")]] = odict()
    return sub


def tweak_rewrite_nested(ch, body):
    """change only what is nested inside a sub-block of a rewrite body (first level untouched); None if there is none"""
    heads = [k for k, v in body.items() if v]
    if not heads:
        return None
    out = copy.deepcopy(body)
    h = heads[ch.draw(len(heads), "rwtweak")]
    new = gen_rewrite_sub(ch)
    if list(new) == list(out[h]):
        new["apply tweak"] = odict()
    out[h] = new
    return out


def gen_tree(ch, rb, rules=None, depth=0, density=2):
    rules = rb.rules if rules is None else rules
    t = odict()
    seen = set()
    cands = list(rules) + (list(rb.globals) if True else [])
    for r in cands:
        n = ch.draw(density + 1, "nrows")
        if r.is_global and depth > 0 and ch.draw(3, "glob-deep") != 0:
            n = 0
        for _ in range(n):
            row = gen_row(ch, r, rb.rev)
            m = match_direct(rules, rb.globals, row, rb.rev)
            if m is None or m[0] is not r or (r.uid, m[1]) in seen:
                continue
            seen.add((r.uid, m[1]))
            if r.twin is not None:
                if (r.twin.uid, m[1]) in seen:
                    continue                      # a setting is configured in one of its two forms only
                seen.add((r.twin.uid, m[1]))
            if r.rewrite:
                t[row] = gen_rewrite_body(ch)
            elif r.block:
                t[row] = gen_tree(ch, rb, kids(rules, row, r, rb.rev), depth + 1, density)
            else:
                t[row] = odict()
    items = ch.shuffle(list(t.items()), "order")
    return odict(items)


def mutate_tree(ch, rb, tree, rules=None, depth=0):
    """a related tree: some rows dropped, changed, added, reordered"""
    rules = rb.rules if rules is None else rules
    out = odict()
    for row, sub in tree.items():
        m = match_direct(rules, rb.globals, row, rb.rev)
        act = ch.draw(8, "mut")
        if m is None or act == 0:
            continue                                    # drop
        r = m[0]
        if act == 1 and r.block and r.bvalue and not r.rewrite:
            nrow = " ".join(words(row)[:1 + r.nkeys] + ([VALS[ch.draw(len(VALS), "bvalv2")]] if ch.draw(3, "bval2") else []))
            if nrow not in out and find_line(out, rules, rb.globals, r, m[1], rb.rev) is None:
                out[nrow] = mutate_tree(ch, rb, sub, kids(rules, row, r, rb.rev), depth + 1)   # same key, other value
            continue
        if act == 1 and not r.block:
            nrow = gen_row(ch, r, rb.rev)               # maybe change value/key
            mm = match_direct(rules, rb.globals, nrow, rb.rev)
            if mm and mm[0] is r and find_line(out, rules, rb.globals, r, mm[1], rb.rev) is None and \
                    (r.twin is None or find_line(out, rules, rb.globals, r.twin, mm[1], rb.rev) is None):
                out[nrow] = odict()
            continue
        if find_line(out, rules, rb.globals, r, m[1], rb.rev) is not None:
            continue
        if r.twin is not None and find_line(out, rules, rb.globals, r.twin, m[1], rb.rev) is not None:
            continue
        if r.rewrite:
            if act == 2:
                out[row] = gen_rewrite_body(ch)
            elif act == 3:
                out[row] = tweak_rewrite_nested(ch, sub) or copy.deepcopy(sub)
            else:
                out[row] = copy.deepcopy(sub)
        elif r.block:
            out[row] = mutate_tree(ch, rb, sub, kids(rules, row, r, rb.rev), depth + 1) if act in (2, 3, 4) else copy.deepcopy(sub)
        else:
            out[row] = odict()
    if ch.draw(2, "add") == 1:
        extra = gen_tree(ch, rb, rules, depth, density=1)
        for row, sub in extra.items():
            m = match_direct(rules, rb.globals, row, rb.rev)
            if m and find_line(out, rules, rb.globals, m[0], m[1], rb.rev) is None and row not in out and \
                    (m[0].twin is None or find_line(out, rules, rb.globals, m[0].twin, m[1], rb.rev) is None):
                out[row] = sub
    if ch.draw(3, "reorder") == 0:
        out = odict(ch.shuffle(list(out.items()), "reorder"))
    return out


def norm(tree, rb, rules=None, in_rewrite=False):
    """canonical form: unordered, except rows of %ordered rules (relative order per rule) and rewrite bodies"""
    rules = rb.rules if rules is None else rules
    if in_rewrite:
        return ("rw", tuple((row, norm(sub, rb, [], True)) for row, sub in tree.items()))
    unord, ordd = [], {}
    for row, sub in tree.items():
        m = match_direct(rules, rb.globals, row, rb.rev)
        r = m[0] if m else None
        if r is None:
            unord.append((row, "?", ()))
        elif r.rewrite:
            unord.append((row, norm(sub, rb, [], True)))
        elif r.ordered:
            ordd.setdefault(r.uid, []).append((row, norm(sub, rb, kids(rules, row, r, rb.rev))))
        else:
            unord.append((row, norm(sub, rb, kids(rules, row, r, rb.rev))))
    return (tuple(sorted(unord, key=repr)), tuple(sorted((k, tuple(v)) for k, v in ordd.items())))


def expected_after(old, new, rb, rules=None):
    """reference model of where an un-cut deploy of patch(old,new) must leave the device:
    new, plus the documented exceptions (permanent lines stay, ignore_changes keeps the old value)"""
    rules = rb.rules if rules is None else rules
    res = odict()
    for row, sub in new.items():
        m = match_direct(rules, rb.globals, row, rb.rev)
        r = m[0] if m else None
        if r is not None and r.logic == "ignore_changes" and row not in old:
            oldrow = find_line(old, rules, rb.globals, r, m[1], rb.rev)
            if oldrow is not None:
                res[oldrow] = copy.deepcopy(old[oldrow])
                continue
        if r is not None and r.block and not r.rewrite and row in old:
            res[row] = expected_after(old[row], sub, rb, kids(rules, row, r, rb.rev))
        else:
            res[row] = copy.deepcopy(sub)
    for row, sub in old.items():
        if row in res:
            continue
        m = match_direct(rules, rb.globals, row, rb.rev)
        r = m[0] if m else None
        if r is not None and r.logic == "permanent" and find_line(new, rules, rb.globals, r, m[1], rb.rev) is None:
            res[row] = expected_after(sub, odict(), rb, kids(rules, row, r, rb.rev)) if r.block else odict()
    return res


def convergent(rb):
    """true when a second diff after a deploy must be empty (no permanent / ignore_changes rule)"""
    return not any(r.logic == "permanent" or (r.logic == "ignore_changes" and not r.block) for r in rb.all)


# ----------------------------------------------------------------------------- session tables
def session_table(hw):
    """independent statement of the vendor session wrapper (enter, commit, leave, save) -- the oracle
    for C09's wrapper clause and the state machine of the device. Returns dict with
    enter, commit (or None), nocommit (sent instead of commit when committing is disabled), leave list,
    save (or None), two_stage, order of after-commands given (do_commit, do_finalize)."""
    m = hw.model
    if m.startswith("Huawei"):
        ce = bool(hw.Huawei.CE or hw.Huawei.NE)
        return {"enter": "system-view", "commit": "commit" if ce else None, "nocommit": None, "leave": ["q"],
                "save": "save", "two_stage": ce, "after_order": "commit,leave,save"}
    if m.startswith("Arista"):
        return {"enter": "conf s", "commit": "commit", "nocommit": "abort", "leave": [], "save": "write memory",
                "two_stage": True, "after_order": "commit,leave,save", "commit_leaves": True}
    if m.startswith(("Cisco ASR", "Cisco XR")):
        return {"enter": "configure exclusive", "commit": "commit", "nocommit": None, "leave": ["exit"], "save": None,
                "two_stage": True, "after_order": "commit,leave,save"}
    if m.startswith(("Cisco", "Nexus")):
        return {"enter": "conf t", "commit": None, "nocommit": None, "leave": ["exit"],
                "save": "copy running-config startup-config", "two_stage": False, "after_order": "commit,leave,save"}
    if m.startswith("Aruba"):
        return {"enter": "conf t", "commit": "commit apply", "nocommit": None, "leave": ["end"], "save": "write memory",
                "two_stage": True, "after_order": "leave,commit,save"}
    if m.startswith("B4com"):
        return {"enter": "conf t", "commit": "commit", "nocommit": None, "leave": ["end"], "save": "write",
                "two_stage": True, "after_order": "commit,leave,save", "leave_only_with_commit": True}
    if m.startswith("H3C"):
        return {"enter": "system-view", "commit": None, "nocommit": None, "leave": [], "save": "save force",
                "two_stage": False, "after_order": "commit,leave,save"}
    raise KeyError(m)


def expected_wrapper(hw, do_commit, do_finalize):
    t = session_table(hw)
    before = [t["enter"]]
    parts = {"commit": [], "leave": list(t["leave"]), "save": []}
    if do_commit and t["commit"]:
        parts["commit"] = [t["commit"]]
    elif not do_commit and t["nocommit"]:
        parts["commit"] = [t["nocommit"]]
    if t.get("leave_only_with_commit") and not do_commit:
        parts["leave"] = []
    if do_finalize and t["save"]:
        parts["save"] = [t["save"]]
    after = []
    for k in t["after_order"].split(","):
        after.extend(parts[k])
    return before, after


# ----------------------------------------------------------------------------- the device
class CliDevice:
    """one line per (rule, key); executes (level,row) commands in the context of the previous ones"""

    def __init__(self, rb, hw, tree):
        self.rb, self.hw = rb, hw
        self.running = copy.deepcopy(tree)
        self.startup = copy.deepcopy(tree)
        self.session = session_table(hw)
        self.in_config = False
        self.candidate = None
        self.ctx = []              # [(row, child rules, subtree, is_rewrite)]
        self.anomalies = []
        self.removals = []         # (command index, path tuple of removed line, rule uid)
        self.executed = 0
        self.commits = 0
        self.saves = 0
        self.noop_undos = 0
        self.log = []

    # the tree configuration commands act on
    def _cfg(self):
        return self.candidate if self.session["two_stage"] else self.running

    def show_config(self, formatter):
        return formatter.join(self.running)

    def exec(self, level, row):
        """returns None or an anomaly tuple"""
        self.executed += 1
        idx = self.executed
        s = self.session
        if not self.in_config:
            if row == s["enter"]:
                self.in_config = True
                self.candidate = copy.deepcopy(self.running) if s["two_stage"] else None
                self.ctx = []
                return None
            if s["save"] and row == s["save"]:
                self.startup = copy.deepcopy(self.running)
                self.saves += 1
                return None
            if row == s["commit"] and self.hw.model.startswith("Aruba"):
                # Aruba: 'commit apply' is given after 'end'
                if self.pending is not None:
                    self.running = self.pending
                    self.pending = None
                    self.commits += 1
                return None
            return self._anomaly(idx, "command-outside-config-mode", level, row)
        # ---- config mode
        if not self.rb.exit:
            self.ctx = self.ctx[:level]          # no exit words: nesting can only come from the level
        if not self.ctx and level == 0 and s["save"] and row == s["save"] and not s["leave"] and not s.get("commit_leaves"):
            # families without a leave command (H3C) save from configuration mode
            self.startup = copy.deepcopy(self.running)
            self.saves += 1
            return None
        if not self.ctx and level == 0 and self._is_wrapper(row):
            if row == s["commit"] and not self.hw.model.startswith("Aruba"):
                if s["two_stage"]:
                    self.running = copy.deepcopy(self.candidate)
                self.commits += 1
                if s.get("commit_leaves"):
                    self.candidate = None
                    self.in_config = False
                return None
            if s["nocommit"] and row == s["nocommit"]:
                self.candidate = None
                self.in_config = False
                return None
            if row in s["leave"]:
                if self.hw.model.startswith("Aruba"):
                    self.pending = self.candidate
                self.candidate = None
                self.in_config = False
                return None
        # inside the body of a rewrite block nesting follows the levels (a body is free text as far as the rulebook goes)
        rw_root = next((i for i, c in enumerate(self.ctx) if c[3]), None)
        if rw_root is not None and level > rw_root:
            if self.rb.exit and row == self.rb.exit:
                if level >= rw_root + 2:
                    self.ctx = self.ctx[:level]          # a nested sub-block is closed
                    return None
                self.ctx = self.ctx[:rw_root]            # the rewrite block itself is closed
                return None
            self.ctx = self.ctx[:max(level, rw_root + 1)]
            parent = self.ctx[-1][2]
            if row not in parent:
                parent[row] = odict()
            self.ctx.append((row, [], parent[row], True))
            return None
        # block exit handling: the device follows its OWN nesting, driven by exit words
        if self.rb.exit and row == self.rb.exit:
            if not self.ctx:
                return self._anomaly(idx, "exit-at-top-level", level, row)
            a = None
            if level != len(self.ctx):
                a = self._anomaly(idx, "nesting-mismatch", level, row, own=len(self.ctx))
            self.ctx.pop()
            return a
        if self.rb.exit and level != len(self.ctx):
            a = self._anomaly(idx, "nesting-mismatch", level, row, own=len(self.ctx))
            self.ctx = self.ctx[:level]
            return a
        rules = self.ctx[-1][1] if self.ctx else self.rb.rules
        tree = self.ctx[-1][2] if self.ctx else self._cfg()
        in_rw = self.ctx[-1][3] if self.ctx else False
        path = tuple(c[0] for c in self.ctx)
        if in_rw:
            if row not in tree:
                tree[row] = odict()
            self.ctx.append((row, [], tree[row], True))
            return None
        m = match_direct(rules, self.rb.globals, row, self.rb.rev)
        if m is not None:
            r, key = m
            cur = find_line(tree, rules, self.rb.globals, r, key, self.rb.rev)
            if r.rewrite:
                if cur is not None:
                    del tree[cur]
                tree[row] = odict()
                self.ctx.append((row, [], tree[row], True))
                return None
            if r.twin is not None:
                other = find_line(tree, rules, self.rb.globals, r.twin, key, self.rb.rev)
                if other is not None:
                    # the other form of the same setting goes away: for the oracles this is a removal of that line
                    self.removals.append((idx, path + (other,), r.twin.uid, copy.deepcopy(tree[other])))
                    del tree[other]
            if cur == row:
                sub = tree[row]
            elif cur is not None and r.block:
                # the header of an existing block is given again with another value: the block is modified in place,
                # what it contains stays (replacing a block takes an explicit removal, which undo_redo asks for)
                sub = tree.pop(cur)
                tree[row] = sub
            else:
                if cur is not None:
                    del tree[cur]
                tree[row] = odict()
                sub = tree[row]
            if r.block:
                self.ctx.append((row, kids(rules, row, r, self.rb.rev), sub, False))
            return None
        m = match_removal(rules, self.rb.globals, row, self.rb.rev)
        if m is None:
            return self._anomaly(idx, "unknown-command", level, row)
        r, key = m
        cur = find_line(tree, rules, self.rb.globals, r, key, self.rb.rev)
        if cur is None:
            # deleting a line that is not there is a no-op on the idealised device (annet does this inside a
            # re-created %ordered block, see the FIXME in common.ordered); counted, not an anomaly
            self.noop_undos += 1
            return None
        self.removals.append((idx, path + (cur,), r.uid, copy.deepcopy(tree[cur])))
        del tree[cur]
        return None

    pending = None

    def _is_wrapper(self, row):
        s = self.session
        return row in ([s["commit"], s["nocommit"]] + s["leave"])

    def _anomaly(self, idx, kind, level, row, **kw):
        a = (idx, kind, level, row, kw)
        self.anomalies.append(a)
        return a

    def drop_session(self):
        """connection lost: an uncommitted candidate is discarded"""
        self.in_config = False
        self.candidate = None
        self.ctx = []
