"""annetsim: deterministic simulation with fault injection for annet (see /verif/DESIGN.md)."""
ENGINE_VERSION = "1"
